(* C10: the parser's argument collection for command statements ([command_args] / [command_stmt] in Parser.v), and what
   hoisting + patching ([add_implicit], [pcmd]) make of the arguments.

   Surface grammar of a command statement (token level):

     command ::= NAME                                  -- no parentheses: no arguments
               | NAME ( group , group , ... , group )  -- separators are COMMA tokens
     group   ::= piece*
     piece   ::= TOKEN                -- identifier, number, operator, keyword: any token type except ( ) , EOF STRING STRINGTYPE format moves
               | (  |  )              -- nested parentheses; the list between the outer parentheses must be balanced as a whole
               | STRING               -- inline text
               | STRINGTYPE STRING    -- inline text with a string type
               | format( ... )        -- token block accepted by the format() parser (a parameter of the parser model)
               | moves( ... )         -- token block accepted by the model's moves_operator (plain lists: plain_moves_accepted)

   NOTE (model = Go code, parser.go:581): EVERY comma token separates two arguments, also a comma inside nested parentheses;
   the nesting depth only decides which ')' ends the list.  "cmd(a, (b, c))" has the three arguments "a", "( b", "c )".
   The printed line is the same as if the inner comma had stayed inside its argument (command_line: tokens in order, one
   space before every piece, none before a comma), but the argument positions (autovar position, position of an inline text)
   count the inner commas.  So the grammar is: groups separated by commas, balanced as a whole, not group by group.

   Main theorems
     command_without_parentheses      NAME not followed by '(' : command with no arguments, nothing consumed beyond the name
     command_with_arguments           [command_stmt] consumes exactly NAME ( ... ) and returns the command whose [cargs] are, in
                                      order, the rendering of each group (the parts of its own pieces joined with single
                                      spaces; a token part is [creplace consts] of its literal; '(' and ')' literal; an inline
                                      text / format() / moves() leaves an empty placeholder and is recorded with its argument
                                      position); a trailing empty group is not an argument ("cmd()", "cmd(a,)")
     command_with_nonempty_arguments, command_with_empty_parentheses     the two usual cases
     part_constant, part_verbatim     constants: by the model's substitution function (Properties_C13)
     command_line                     the line printed for the parsed command
     command_statement_without_parentheses, command_statement_with_arguments     the same for [parse_stmt]
     straight_line_commands, block_of_commands     a stretch of command statements in a block yields exactly one command
                                      statement per source command, in source order
     command_inline_data_in_range, patching_keeps_command     ALL token streams: a command's inline data is addressed to it
                                      and to an existing argument; patching never fails, keeps name and argument count
     inline_arguments_become_labels   after hoisting and patching, the argument of a group with one inline text / format() /
                                      moves() is the label the final hoisting table gives to that content; plain groups unchanged
     plain_command_final_line         the quantifier class of C10 (no inline pieces): final printed line
     stretch_hoisted, block_of_commands_hoisted     a stretch / a whole block of commands after hoisting and patching
     plain_moves_accepted             the moves() hypothesis of the grammar holds for plain movement lists
   Examples (ex_wf, ex_run, ex_patched, ex_format): the hypotheses are satisfiable, the model run agrees.
*)
From Coq Require Import List String Ascii ZArith NArith Lia Bool.
From Pory Require Import Lexer Ast Emitter EmitProps Parser.
From Pory Require Format.
Import ListNotations.
Open Scope list_scope.

(* ---------- the grammar ---------- *)
Definition plain_type (ty : toktype) : bool :=
  match ty with RPAREN | EOF | COMMA | LPAREN | FORMAT | STRING | STRINGTYPE | MOVES => false | _ => true end.

Inductive piece :=
| PTok (tk : token)                                                (* identifier, number, operator, keyword *)
| POpen (tk : token)                                               (* ( *)
| PClose (tk : token)                                              (* ) *)
| PStr (tk : token)                                                (* "..." *)
| PTyped (ty tk : token)                                           (* ascii"..." *)
| PFormat (lt : list token) (clo : token) (tk : token) (v sty : text)   (* format(...): its tokens, and what the format parser returns for them *)
| PMoves (lt : list token) (clo : token) (mv : list token).        (* moves(...): its tokens, and the movement list *)

Definition piece_toks (p : piece) : list token :=
  match p with
  | PTok tk | POpen tk | PClose tk | PStr tk => [tk]
  | PTyped ty tk => [ty; tk]
  | PFormat lt _ _ _ _ => lt
  | PMoves lt _ _ => lt
  end.
Definition group_toks (g : list piece) : list token := flat_map piece_toks g.

(* an argument list: a first group, then (comma, group) pairs *)
Definition arglist := (list piece * list (token * list piece))%type.
Definition groups_of (a : arglist) : list (list piece) := Datatypes.fst a :: map (@Datatypes.snd _ _) (Datatypes.snd a).
Definition more_toks (more : list (token * list piece)) : list token :=
  flat_map (fun cg => Datatypes.fst cg :: group_toks (Datatypes.snd cg)) more.
Definition arg_tokens (a : arglist) : list token := group_toks (Datatypes.fst a) ++ more_toks (Datatypes.snd a).

(* balanced parentheses, over the whole list (commas and all other pieces are neutral) *)
Inductive elem := EP (p : piece) | EComma (tk : token).
Definition flat (a : arglist) : list elem :=
  map EP (Datatypes.fst a) ++ flat_map (fun cg => EComma (Datatypes.fst cg) :: map EP (Datatypes.snd cg)) (Datatypes.snd a).
Definition is_paren (e : elem) : bool := match e with EP (POpen _) | EP (PClose _) => true | _ => false end.
Inductive balanced : list elem -> Prop :=
| bal_nil : balanced []
| bal_other e es : is_paren e = false -> balanced es -> balanced (e :: es)
| bal_paren o body c es : balanced body -> balanced es -> balanced (EP (POpen o) :: body ++ EP (PClose c) :: es).

(* what a piece contributes to the text of its argument *)
Section SPEC.
Variable switches : list (text * text).
Variable env_errors : bool.
Variable parse_format : toks -> res (token * text * text * toks).
Variable consts : list (text * text).

Notation command_args := (command_args switches env_errors parse_format consts).
Notation command_stmt := (command_stmt switches env_errors parse_format consts).
Notation moves_operator := (moves_operator switches env_errors).

Definition part (p : piece) : text :=
  match p with
  | PTok tk => creplace consts (tlit tk)
  | POpen tk | PClose tk => tlit tk
  | PStr _ | PTyped _ _ | PFormat _ _ _ _ _ | PMoves _ _ _ => []     (* placeholder, overwritten by the label (see below) *)
  end.
Definition render_group (g : list piece) : text := join sp (map part g).

(* the last group does not count when it is empty: "cmd()" has no argument, "cmd(a,)" has one *)
Fixpoint strip_last_empty (gs : list (list piece)) : list (list piece) :=
  match gs with
  | [] => []
  | [g] => match g with [] => [] | _ => [g] end
  | g :: r => g :: strip_last_empty r
  end.

(* legal pieces *)
Definition wf_piece (p : piece) : Prop :=
  match p with
  | PTok tk => plain_type (ttype tk) = true
  | POpen tk => ttype tk = LPAREN
  | PClose tk => ttype tk = RPAREN
  | PStr tk => ttype tk = STRING
  | PTyped ty tk => ttype ty = STRINGTYPE /\ ttype tk = STRING
  | PFormat lt clo tk v sty =>
      (exists x r, lt = x :: r /\ ttype x = FORMAT) /\
      forall R, R <> [] -> parse_format (lt ++ R) = Ok (tk, v, sty, clo :: R)
  | PMoves lt clo mv =>
      (exists x r, lt = x :: r /\ ttype x = MOVES) /\
      forall f R, (List.length lt <= f)%nat -> R <> [] -> moves_operator f (lt ++ R) = Ok (mv, clo :: R)
  end.
Definition wf_args (a : arglist) : Prop :=
  Forall wf_piece (Datatypes.fst a) /\
  Forall (fun cg => ttype (Datatypes.fst cg) = COMMA /\ Forall wf_piece (Datatypes.snd cg)) (Datatypes.snd a).

(* the inline texts and movements recorded for a piece of argument number [k] *)
Section IMP.
Variable script : text.
Variable cmdtok : token.
Variable cidv : nat.
Definition mk_text (k : nat) (tk : token) (v sty : text) : imptext :=
  {| itCid := cidv; itArg := k; itTok := set_lit tk (terminate v sty); itType := sty; itScript := script |}.
Definition piece_texts (k : nat) (p : piece) : list imptext :=
  match p with
  | PStr tk => [mk_text k tk (tlit tk) []]
  | PTyped ty tk => [mk_text k tk (tlit tk) (tlit ty)]
  | PFormat _ _ tk v sty => [mk_text k tk v sty]
  | _ => []
  end.
Definition piece_movs (k : nat) (p : piece) : list impmov :=
  match p with
  | PMoves _ _ mv => [{| imCid := cidv; imArg := k; imToks := mv; imScript := script; imCmdTok := cmdtok |}]
  | _ => []
  end.
Fixpoint groups_texts (k : nat) (gs : list (list piece)) : list imptext :=
  match gs with [] => [] | g :: r => flat_map (piece_texts k) g ++ groups_texts (S k) r end.
Fixpoint groups_movs (k : nat) (gs : list (list piece)) : list impmov :=
  match gs with [] => [] | g :: r => flat_map (piece_movs k) g ++ groups_movs (S k) r end.
End IMP.

(* ---------- small facts ---------- *)
Lemma is_true ty x : ttype x = ty -> is ty x = true.
Proof. intros H. unfold is, tt_eqb. rewrite H. destruct (toktype_eq_dec ty ty); [reflexivity|congruence]. Qed.
Lemma is_false ty x : ttype x <> ty -> is ty x = false.
Proof. intros H. unfold is, tt_eqb. destruct (toktype_eq_dec (ttype x) ty); [congruence|reflexivity]. Qed.
Lemma curis_cons ty a r : curis ty (a :: r) = is ty a.
Proof. reflexivity. Qed.
Lemma cur_cons a r : cur (a :: r) = a.
Proof. reflexivity. Qed.
Lemma adv_cons a r : r <> [] -> adv (a :: r) = r.
Proof. destruct r; [congruence|reflexivity]. Qed.

Lemma command_args_unfold f script cmdtok cidv ts depth parts args imp :
  command_args (S f) script cmdtok cidv ts depth parts args imp =
  if curis RPAREN ts && Nat.eqb depth 0 then
    Ok (match parts with [] => args | _ => flush_arg parts args end, imp, ts)
  else if curis EOF ts then err_tok cmdtok "missing closing parenthesis for command"
  else if curis COMMA ts then command_args f script cmdtok cidv (adv ts) depth [] (flush_arg parts args) imp
  else if curis LPAREN ts then command_args f script cmdtok cidv (adv ts) (S depth) (parts ++ [tlit (cur ts)]) args imp
  else if curis RPAREN ts then command_args f script cmdtok cidv (adv ts) (pred depth) (parts ++ [tlit (cur ts)]) args imp
  else if curis FORMAT ts then
    do (tk, v, sty, ts1) <- parse_format ts;
    let it := {| itCid := cidv; itArg := List.length args; itTok := set_lit tk (terminate v sty); itType := sty; itScript := script |} in
    command_args f script cmdtok cidv (adv ts1) depth (parts ++ [[]]) args {| idT := idT imp ++ [it]; idM := idM imp |}
  else if curis STRING ts then
    let it := {| itCid := cidv; itArg := List.length args; itTok := set_lit (cur ts) (terminate (tlit (cur ts)) []); itType := []; itScript := script |} in
    command_args f script cmdtok cidv (adv ts) depth (parts ++ [[]]) args {| idT := idT imp ++ [it]; idM := idM imp |}
  else if curis STRINGTYPE ts then
    let sty := tlit (cur ts) in
    let ts1 := adv ts in
    if negb (curis STRING ts1) then err_tok (cur ts1) "expected a string literal after string type" else
    let it := {| itCid := cidv; itArg := List.length args; itTok := set_lit (cur ts1) (terminate (tlit (cur ts1)) sty); itType := sty; itScript := script |} in
    command_args f script cmdtok cidv (adv ts1) depth (parts ++ [[]]) args {| idT := idT imp ++ [it]; idM := idM imp |}
  else if curis MOVES ts then
    do (mv, ts1) <- moves_operator f ts;
    let im := {| imCid := cidv; imArg := List.length args; imToks := mv; imScript := script; imCmdTok := cmdtok |} in
    command_args f script cmdtok cidv (adv ts1) depth (parts ++ [[]]) args {| idT := idT imp; idM := idM imp ++ [im] |}
  else command_args f script cmdtok cidv (adv ts) depth (parts ++ [creplace consts (tlit (cur ts))]) args imp.
Proof. reflexivity. Qed.

(* depth bookkeeping of the model over a group *)
Fixpoint depth_g (d : nat) (g : list piece) : option nat :=
  match g with
  | [] => Some d
  | POpen _ :: r => depth_g (S d) r
  | PClose _ :: r => match d with O => None | S d' => depth_g d' r end
  | _ :: r => depth_g d r
  end.

(* the type tests of the dispatch, for each kind of piece *)
Ltac types x H :=
  rewrite ?curis_cons;
  repeat match goal with
  | |- context[is ?ty x] =>
      first [ rewrite (is_true ty x H)
            | rewrite (is_false ty x) by (rewrite H; discriminate) ]
  end.

Lemma plain_tests tk : plain_type (ttype tk) = true ->
  is RPAREN tk = false /\ is EOF tk = false /\ is COMMA tk = false /\ is LPAREN tk = false /\ is FORMAT tk = false /\
  is STRING tk = false /\ is STRINGTYPE tk = false /\ is MOVES tk = false.
Proof.
  intros H. repeat split; apply is_false; intros E; rewrite E in H; discriminate.
Qed.

(* one group: the loop walks over its pieces, appending one part per piece *)
Lemma group_run script cmdtok cidv : forall g, Forall wf_piece g ->
  forall F R d d' parts args T M,
    depth_g d g = Some d' -> R <> [] -> (List.length (group_toks g) < F)%nat ->
    command_args F script cmdtok cidv (group_toks g ++ R) d parts args {| idT := T; idM := M |} =
    command_args (F - List.length g) script cmdtok cidv R d' (parts ++ map part g) args
      {| idT := T ++ flat_map (piece_texts script cidv (List.length args)) g;
         idM := M ++ flat_map (piece_movs script cmdtok cidv (List.length args)) g |}.
Proof.
  induction g as [|p g IH]; intros W F R d d' parts args T M Hd HR HF.
  - cbn in Hd. inversion Hd; subst. cbn. rewrite Nat.sub_0_r, !app_nil_r. reflexivity.
  - inversion W as [|? ? Wp Wg]; subst.
    assert (NE : group_toks g ++ R <> []) by (destruct (group_toks g); [exact HR|discriminate]).
    destruct F as [|f]; [cbn in HF; lia|].
    change (group_toks (p :: g)) with (piece_toks p ++ group_toks g) in *.
    rewrite app_length in HF.
    replace (S f - List.length (p :: g))%nat with (f - List.length g)%nat by (cbn; lia).
    rewrite command_args_unfold.
    destruct p as [tk|tk|tk|tk|ty tk|lt clo tk v sty|lt clo mv]; cbn [piece_toks app List.length] in *; cbn [wf_piece] in Wp.
    + (* plain token *)
      destruct (plain_tests tk Wp) as (E1 & E2 & E3 & E4 & E5 & E6 & E7 & E8).
      rewrite !curis_cons, E1, E2, E3, E4, E5, E6, E7, E8. cbn [andb]. rewrite cur_cons, (adv_cons _ _ NE).
      cbn [depth_g] in Hd. rewrite (IH Wg f R d d' _ args T M Hd HR ltac:(lia)).
      cbn [map flat_map piece_texts piece_movs part app]. rewrite <- app_assoc. reflexivity.
    + (* ( *)
      types tk Wp. cbn [andb]. rewrite cur_cons, (adv_cons _ _ NE).
      cbn [depth_g] in Hd. rewrite (IH Wg f R (S d) d' _ args T M Hd HR ltac:(lia)).
      cbn [map flat_map piece_texts piece_movs part app]. rewrite <- app_assoc. reflexivity.
    + (* ) *)
      cbn [depth_g] in Hd. destruct d as [|d0]; [discriminate|].
      types tk Wp. cbn [andb Nat.eqb pred]. rewrite cur_cons, (adv_cons _ _ NE).
      rewrite (IH Wg f R d0 d' _ args T M Hd HR ltac:(lia)).
      cbn [map flat_map piece_texts piece_movs part app]. rewrite <- app_assoc. reflexivity.
    + (* "..." *)
      types tk Wp. cbn [andb]. cbv zeta. rewrite cur_cons, (adv_cons _ _ NE). cbn [idT idM].
      cbn [depth_g] in Hd. rewrite (IH Wg f R d d' _ args _ M Hd HR ltac:(lia)).
      cbn [map flat_map piece_texts piece_movs part app]. rewrite <- !app_assoc. reflexivity.
    + (* ascii"..." *)
      destruct Wp as [Wty Wtk]. types ty Wty. cbn [andb]. cbv zeta.
      rewrite cur_cons, (adv_cons ty (tk :: group_toks g ++ R)) by discriminate.
      rewrite curis_cons, (is_true STRING tk Wtk). cbn [negb]. rewrite cur_cons, (adv_cons _ _ NE). cbn [idT idM].
      cbn [depth_g] in Hd. rewrite (IH Wg f R d d' _ args _ M Hd HR ltac:(cbn in HF; lia)).
      cbn [map flat_map piece_texts piece_movs part app]. rewrite <- !app_assoc. reflexivity.
    + (* format(...) *)
      rewrite <- app_assoc. destruct Wp as [(x & r & -> & Wx) Wf]. cbn [app]. types x Wx. cbn [andb]. cbv zeta.
      change (x :: r ++ group_toks g ++ R) with ((x :: r) ++ group_toks g ++ R).
      rewrite (Wf _ NE). cbn beta iota. rewrite (adv_cons _ _ NE). cbn [idT idM].
      cbn [depth_g] in Hd. rewrite (IH Wg f R d d' _ args _ M Hd HR ltac:(cbn in HF; lia)).
      cbn [map flat_map piece_texts piece_movs part app]. rewrite <- !app_assoc. reflexivity.
    + (* moves(...) *)
      rewrite <- app_assoc. destruct Wp as [(x & r & -> & Wx) Wm]. cbn [app]. types x Wx. cbn [andb]. cbv zeta.
      change (x :: r ++ group_toks g ++ R) with ((x :: r) ++ group_toks g ++ R).
      rewrite (Wm f _ ltac:(lia) NE). cbn beta iota. rewrite (adv_cons _ _ NE). cbn [idT idM].
      cbn [depth_g] in Hd. rewrite (IH Wg f R d d' _ args T _ Hd HR ltac:(cbn in HF; lia)).
      cbn [map flat_map piece_texts piece_movs part app]. rewrite <- !app_assoc. reflexivity.
Qed.


Lemma pieces_le_tokens g : Forall wf_piece g -> (List.length g <= List.length (group_toks g))%nat.
Proof.
  induction 1 as [|p g Wp _ IH]; [apply le_n|].
  change (group_toks (p :: g)) with (piece_toks p ++ group_toks g). rewrite app_length. cbn [List.length].
  assert (1 <= List.length (piece_toks p))%nat; [|lia].
  destruct p; cbn [piece_toks List.length wf_piece] in *; try lia.
  - destruct Wp as [(x & r & -> & _) _]. cbn. lia.
  - destruct Wp as [(x & r & -> & _) _]. cbn. lia.
Qed.

(* the same bookkeeping over the flat list *)
Fixpoint depth_e (d : nat) (es : list elem) : option nat :=
  match es with
  | [] => Some d
  | EP (POpen _) :: r => depth_e (S d) r
  | EP (PClose _) :: r => match d with O => None | S d' => depth_e d' r end
  | _ :: r => depth_e d r
  end.
Lemma depth_e_app a : forall d b, depth_e d (a ++ b) = match depth_e d a with Some d' => depth_e d' b | None => None end.
Proof.
  induction a as [|e a IH]; intros d b; [reflexivity|].
  destruct e as [p|c]; [destruct p|]; cbn [app depth_e]; try apply IH. destruct d; [reflexivity|apply IH].
Qed.
Lemma depth_e_map g : forall d, depth_e d (map EP g) = depth_g d g.
Proof.
  induction g as [|p g IH]; intros d; [reflexivity|]. destruct p; cbn [map depth_e depth_g]; try apply IH.
  destruct d; [reflexivity|apply IH].
Qed.
Lemma balanced_depth es : balanced es -> forall d, depth_e d es = Some d.
Proof.
  induction 1 as [|e es He _ IH|o body c es _ IHb _ IHe]; intros d.
  - reflexivity.
  - destruct e as [p|k]; [destruct p|]; cbn in He; try discriminate; cbn [depth_e]; apply IH.
  - cbn [depth_e]. rewrite depth_e_app, IHb. cbn [depth_e]. apply IHe.
Qed.

Definition flat_more (more : list (token * list piece)) : list elem :=
  flat_map (fun cg => EComma (Datatypes.fst cg) :: map EP (Datatypes.snd cg)) more.

(* the argument list the loop ends with, from the parts of the current group on *)
Fixpoint finish (parts : list text) (more : list (token * list piece)) : list text :=
  match more with
  | [] => match parts with [] => [] | _ => [join sp parts] end
  | (_, g) :: r => join sp parts :: finish (map part g) r
  end.

Lemma finish_groups : forall more g0,
  finish (map part g0) more = map render_group (strip_last_empty (g0 :: map (@Datatypes.snd _ _) more)).
Proof.
  induction more as [|[c g] r IH]; intros g0.
  - destruct g0; reflexivity.
  - cbn [finish map Datatypes.snd]. rewrite IH. reflexivity.
Qed.

Lemma more_run script cmdtok cidv : forall more,
  Forall (fun cg => ttype (Datatypes.fst cg) = COMMA /\ Forall wf_piece (Datatypes.snd cg)) more ->
  forall F rp rest d parts args T M,
    depth_e d (flat_more more) = Some O -> ttype rp = RPAREN -> (List.length (more_toks more) < F)%nat ->
    command_args F script cmdtok cidv (more_toks more ++ rp :: rest) d parts args {| idT := T; idM := M |} =
    Ok (args ++ finish parts more,
        {| idT := T ++ groups_texts script cidv (S (List.length args)) (map (@Datatypes.snd _ _) more);
           idM := M ++ groups_movs script cmdtok cidv (S (List.length args)) (map (@Datatypes.snd _ _) more) |},
        rp :: rest).
Proof.
  induction more as [|[c g] more IH]; intros W F rp rest d parts args T M Hd Hrp HF.
  - cbn in Hd. inversion Hd; subst. destruct F as [|f]; [cbn in HF; lia|].
    cbn [more_toks flat_map app]. rewrite command_args_unfold, curis_cons, (is_true RPAREN rp Hrp). cbn [andb Nat.eqb].
    cbn [finish map groups_texts groups_movs]. rewrite !app_nil_r. destruct parts; [rewrite app_nil_r|]; reflexivity.
  - inversion W as [|? ? [Wc Wg] Wm]; subst. cbn [Datatypes.fst Datatypes.snd] in *.
    destruct F as [|f]; [cbn in HF; lia|].
    change (more_toks ((c, g) :: more)) with ((c :: group_toks g) ++ more_toks more) in *.
    rewrite app_length in HF. cbn [List.length] in HF.
    rewrite <- app_assoc. cbn [app]. rewrite command_args_unfold. types c Wc. cbn [andb].
    assert (NE : more_toks more ++ rp :: rest <> []) by (destruct (more_toks more); discriminate).
    rewrite adv_cons by (destruct (group_toks g); [exact NE|discriminate]).
    change (flat_more ((c, g) :: more)) with (EComma c :: map EP g ++ flat_more more) in Hd.
    cbn [depth_e] in Hd. rewrite depth_e_app, depth_e_map in Hd.
    destruct (depth_g d g) as [d'|] eqn:Dg; [|discriminate].
    pose proof (pieces_le_tokens g Wg) as Hle.
    rewrite (group_run script cmdtok cidv g Wg f _ d d' [] (flush_arg parts args) T M Dg NE ltac:(lia)).
    rewrite (IH Wm (f - List.length g)%nat rp rest d' _ _ _ _ Hd Hrp ltac:(lia)).
    unfold flush_arg. rewrite app_length. cbn [List.length]. rewrite Nat.add_1_r.
    cbn [finish map Datatypes.snd groups_texts groups_movs app]. rewrite <- !app_assoc. reflexivity.
Qed.


(* ---------- main theorems: the parser ---------- *)

(* a command name that is not followed by '(' is a command without arguments; no token is consumed beyond the name *)
Theorem command_without_parentheses : forall f script ts,
  peekis LPAREN ts = false ->
  command_stmt f script ts =
    Ok ({| cname := tlit (cur ts); cargs := []; ctok := cur ts; Ast.cid := List.length ts |}, imp0, ts).
Proof. intros f script ts H. unfold Parser.command_stmt. rewrite H. reflexivity. Qed.

(* NAME ( group , ... , group ) : exactly these tokens are consumed (the result stream starts at the closing parenthesis,
   the last token of the command); the arguments are the groups, in order, each rendered from its own pieces only *)
Theorem command_with_arguments : forall f script name lp (a : arglist) rp rest,
  ttype lp = LPAREN -> ttype rp = RPAREN ->
  wf_args a -> balanced (flat a) ->
  (List.length (arg_tokens a) < f)%nat ->
  let ts := name :: lp :: arg_tokens a ++ rp :: rest in
  command_stmt f script ts =
    Ok ({| cname := tlit name;
           cargs := map render_group (strip_last_empty (groups_of a));
           ctok := name; Ast.cid := List.length ts |},
        {| idT := groups_texts script (List.length ts) 0 (groups_of a);
           idM := groups_movs script name (List.length ts) 0 (groups_of a) |},
        rp :: rest).
Proof.
  intros f script name lp [g0 more] rp rest Hlp Hrp [W0 Wm] Hb HF ts.
  unfold arg_tokens, groups_of, flat in *. cbn [Datatypes.fst Datatypes.snd] in *.
  unfold Parser.command_stmt. subst ts.
  set (n := List.length (name :: lp :: (group_toks g0 ++ more_toks more) ++ rp :: rest)).
  change (peekis LPAREN (name :: lp :: (group_toks g0 ++ more_toks more) ++ rp :: rest)) with (is LPAREN lp).
  rewrite (is_true LPAREN lp Hlp). rewrite cur_cons.
  assert (NE : more_toks more ++ rp :: rest <> []) by (destruct (more_toks more); discriminate).
  rewrite <- app_assoc.
  assert (NE0 : group_toks g0 ++ more_toks more ++ rp :: rest <> []) by (destruct (group_toks g0); [exact NE|discriminate]).
  rewrite (adv_cons name) by discriminate. rewrite (adv_cons lp _ NE0).
  pose proof (balanced_depth _ Hb O) as Hd. rewrite depth_e_app, depth_e_map in Hd.
  destruct (depth_g 0 g0) as [d'|] eqn:Dg; [|discriminate].
  rewrite app_length in HF. pose proof (pieces_le_tokens g0 W0) as Hle.
  unfold imp0.
  rewrite (group_run script name n g0 W0 f _ 0%nat d' [] [] [] [] Dg NE ltac:(lia)).
  rewrite (more_run script name n more Wm (f - List.length g0)%nat rp rest d' _ _ _ _ Hd Hrp ltac:(lia)).
  cbn [app List.length groups_texts groups_movs]. rewrite finish_groups. reflexivity.
Qed.

(* when no group is empty every group is an argument *)
Lemma strip_nonempty gs : Forall (fun g : list piece => g <> []) gs -> strip_last_empty gs = gs.
Proof.
  induction 1 as [|g r Hg _ IH]; [reflexivity|]. cbn [strip_last_empty]. destruct r as [|g' r'].
  - destruct g; [congruence|reflexivity].
  - rewrite IH. reflexivity.
Qed.

Corollary command_with_nonempty_arguments : forall f script name lp (a : arglist) rp rest,
  ttype lp = LPAREN -> ttype rp = RPAREN ->
  wf_args a -> balanced (flat a) -> Forall (fun g => g <> []) (groups_of a) ->
  (List.length (arg_tokens a) < f)%nat ->
  exists c imp, command_stmt f script (name :: lp :: arg_tokens a ++ rp :: rest) = Ok (c, imp, rp :: rest) /\
    cname c = tlit name /\ cargs c = map render_group (groups_of a).
Proof.
  intros f script name lp a rp rest Hlp Hrp W Hb Hne HF.
  eexists _, _. split; [exact (command_with_arguments f script name lp a rp rest Hlp Hrp W Hb HF)|].
  cbn [cname cargs]. rewrite (strip_nonempty _ Hne). split; reflexivity.
Qed.

(* NAME ( ) has no argument *)
Corollary command_with_empty_parentheses : forall f script name lp rp rest,
  ttype lp = LPAREN -> ttype rp = RPAREN -> (0 < f)%nat ->
  exists c, command_stmt f script (name :: lp :: rp :: rest) = Ok (c, imp0, rp :: rest) /\ cname c = tlit name /\ cargs c = [].
Proof.
  intros f script name lp rp rest Hlp Hrp HF.
  pose proof (command_with_arguments f script name lp ([], []) rp rest Hlp Hrp) as H.
  cbn in H. eexists. split; [apply H|].
  - split; constructor.
  - constructor.
  - exact HF.
  - split; reflexivity.
Qed.

(* constants: the part of a token is the model's substitution applied to its literal, so (Properties_C13.constant_use_is_its_value)
   a token that names a constant contributes the constant's value and any other token contributes its literal unchanged *)
Lemma part_constant tk v : assoc consts (tlit tk) = Some v -> part (PTok tk) = v.
Proof. intros H. cbn [part]. unfold creplace. rewrite H. reflexivity. Qed.
Lemma part_verbatim tk : assoc consts (tlit tk) = None -> part (PTok tk) = tlit tk.
Proof. intros H. cbn [part]. unfold creplace. rewrite H. reflexivity. Qed.

(* ---------- the emitted line ---------- *)
Fixpoint line_tail (es : list elem) : text :=
  match es with
  | [] => []
  | EComma _ :: r => t "," ++ line_tail r
  | EP p :: r => sp ++ part p ++ line_tail r
  end.
Definition line_of (es : list elem) : text :=
  match es with
  | [] => []
  | EComma _ :: r => t "," ++ line_tail r
  | EP p :: r => part p ++ line_tail r
  end.

Lemma join_cons sep : forall l x, join sep (x :: l) = x ++ flat_map (fun y => sep ++ y) l.
Proof.
  induction l as [|y l IH]; intros x; [cbn; now rewrite app_nil_r|].
  change (join sep (x :: y :: l)) with (x ++ sep ++ join sep (y :: l)). rewrite IH. cbn [flat_map]. now rewrite <- app_assoc.
Qed.
Lemma ejoin_eq sep l : Emitter.join sep l = join sep l.
Proof. induction l as [|x l IH]; [reflexivity|]. destruct l; [reflexivity|]. cbn [Emitter.join join] in *. now rewrite IH. Qed.

Lemma line_tail_group g : forall es,
  line_tail (map EP g ++ es) = flat_map (fun y => sp ++ y) (map part g) ++ line_tail es.
Proof. induction g as [|p g IH]; intros es; [reflexivity|]. cbn [map app line_tail flat_map]. rewrite IH, <- !app_assoc. reflexivity. Qed.

Lemma line_tail_more : forall more,
  Forall (fun g : list piece => g <> []) (map (@Datatypes.snd _ _) more) ->
  line_tail (flat_more more) = flat_map (fun y => t ", " ++ y) (map render_group (map (@Datatypes.snd _ _) more)).
Proof.
  induction more as [|[c g] more IH]; intros H; [reflexivity|]. cbn [map Datatypes.snd] in H. inversion H as [|? ? Hg Hr]; subst.
  change (flat_more ((c, g) :: more)) with (EComma c :: map EP g ++ flat_more more).
  destruct g as [|p g]; [congruence|]. cbn [map Datatypes.snd flat_map app line_tail]. rewrite line_tail_group, (IH Hr).
  unfold render_group. cbn [map]. rewrite join_cons, <- !app_assoc. reflexivity.
Qed.

Lemma line_groups (a : arglist) : Forall (fun g => g <> []) (groups_of a) ->
  join (t ", ") (map render_group (groups_of a)) = line_of (flat a).
Proof.
  destruct a as [g0 more]. unfold groups_of, flat. cbn [Datatypes.fst Datatypes.snd]. intros H. inversion H as [|? ? H0 Hr]; subst.
  fold (flat_more more). destruct g0 as [|p g0]; [congruence|]. cbn [map]. rewrite join_cons.
  cbn [app line_of]. rewrite line_tail_group, (line_tail_more more Hr). unfold render_group. cbn [map].
  rewrite join_cons, <- !app_assoc. reflexivity.
Qed.

(* the line printed for the command as parsed: tab, name, one space, then the source tokens in order -
   one space before every piece, none before a comma (so commas are kept, also those inside nested parentheses) *)
Theorem command_line : forall f script name lp (a : arglist) rp rest,
  ttype lp = LPAREN -> ttype rp = RPAREN ->
  wf_args a -> balanced (flat a) -> Forall (fun g => g <> []) (groups_of a) ->
  (List.length (arg_tokens a) < f)%nat ->
  exists c imp, command_stmt f script (name :: lp :: arg_tokens a ++ rp :: rest) = Ok (c, imp, rp :: rest) /\
    render_cmd c = tab ++ tlit name ++ t " " ++ line_of (flat a) ++ nl.
Proof.
  intros f script name lp a rp rest Hlp Hrp W Hb Hne HF.
  destruct (command_with_nonempty_arguments f script name lp a rp rest Hlp Hrp W Hb Hne HF) as (c & imp & E & Hn & Ha).
  exists c, imp. split; [exact E|].
  unfold groups_of in Ha. cbn [map] in Ha. rewrite (render_cmd_args c _ _ Ha), Hn, ejoin_eq.
  change (render_group (Datatypes.fst a) :: map render_group (map (@Datatypes.snd _ _) (Datatypes.snd a)))
    with (map render_group (groups_of a)).
  rewrite (line_groups a Hne). reflexivity.
Qed.

End SPEC.


(* ---------- patching: inline texts and movements become labels ---------- *)
Lemma set_nth_spec : forall a (l : list text) v, (a < List.length l)%nat ->
  exists l', set_nth a l v = Some l' /\ List.length l' = List.length l /\
    forall k, nth_error l' k = if Nat.eqb a k then Some v else nth_error l k.
Proof.
  induction a as [|a IH]; intros [|x l] v H; cbn [List.length] in H; try lia.
  - eexists. split; [reflexivity|]. split; [reflexivity|]. intros [|k]; reflexivity.
  - destruct (IH l v ltac:(lia)) as (l' & E & L & N). exists (x :: l'). cbn [set_nth]. rewrite E.
    split; [reflexivity|]. split; [cbn [List.length]; lia|]. intros [|k]; [reflexivity|]. cbn [nth_error Nat.eqb]. apply N.
Qed.

(* the labels of the patches addressed to argument k of command i, in the order of the patch list; the last one wins *)
Definition labels_for (ps : list patch) (i k : nat) : list text :=
  flat_map (fun p : patch => if Nat.eqb (Datatypes.fst (Datatypes.fst p)) i && Nat.eqb (Datatypes.snd (Datatypes.fst p)) k
                             then [Datatypes.snd p] else []) ps.
Definition overwrite (o : option text) (ls : list text) : option text := fold_left (fun _ l => Some l) ls o.

Lemma labels_for_app ps1 ps2 i k : labels_for (ps1 ++ ps2) i k = labels_for ps1 i k ++ labels_for ps2 i k.
Proof. unfold labels_for. apply flat_map_app. Qed.

Lemma apply_patches_spec : forall ps c,
  (forall i a l, In (i, a, l) ps -> i = Ast.cid c -> (a < List.length (cargs c))%nat) ->
  exists args', apply_patches ps c = Some {| cname := cname c; cargs := args'; ctok := ctok c; Ast.cid := Ast.cid c |} /\
    List.length args' = List.length (cargs c) /\
    forall k, nth_error args' k = overwrite (nth_error (cargs c) k) (labels_for ps (Ast.cid c) k).
Proof.
  induction ps as [|[[i a] l] r IH]; intros c B.
  - exists (cargs c). destruct c; cbn. auto.
  - cbn [apply_patches]. destruct (Nat.eqb_spec i (Ast.cid c)) as [E|E].
    + destruct (set_nth_spec a (cargs c) l (B i a l (or_introl eq_refl) E)) as (l' & E1 & L1 & N1). rewrite E1.
      set (c1 := {| cname := cname c; cargs := l'; ctok := ctok c; Ast.cid := Ast.cid c |}).
      destruct (IH c1) as (args' & E2 & L2 & N2).
      { intros i0 a0 l0 Hin Hi. cbn [cargs c1]. rewrite L1. apply (B i0 a0 l0 (or_intror Hin) Hi). }
      exists args'. split; [exact E2|]. split; [cbn [c1 cargs] in L2; lia|]. intros k. rewrite N2. cbn [c1 cargs Ast.cid].
      unfold labels_for at 2. cbn [flat_map Datatypes.fst Datatypes.snd]. rewrite E, Nat.eqb_refl. cbn [andb].
      fold (labels_for r (Ast.cid c) k). rewrite N1. unfold overwrite.
      destruct (Nat.eqb a k); cbn [app fold_left]; reflexivity.
    + destruct (IH c) as (args' & E2 & L2 & N2).
      { intros i0 a0 l0 Hin Hi. apply (B i0 a0 l0 (or_intror Hin) Hi). }
      exists args'. split; [exact E2|]. split; [exact L2|]. intros k. rewrite N2.
      unfold labels_for at 2. cbn [flat_map Datatypes.fst Datatypes.snd].
      destruct (Nat.eqb_spec i (Ast.cid c)) as [E'|_]; [congruence|]. cbn [andb app]. reflexivity.
Qed.

(* the patch lists produced by hoisting: one patch per occurrence, in order, addressed to the occurrence's command and
   argument, carrying the label under which the final tables know the occurrence's content *)
Lemma text_eqb_refl x : text_eqb x x = true.
Proof. unfold text_eqb. destruct (list_eq_dec N.eq_dec x x); [reflexivity|congruence]. Qed.
Lemma text_eqb_true a b : text_eqb a b = true -> a = b.
Proof. unfold text_eqb. destruct (list_eq_dec N.eq_dec a b); [auto|discriminate]. Qed.

Definition text_patch (hs : list (text * text * text)) (it : imptext) (p : patch) : Prop :=
  exists l, p = (itCid it, itArg it, l) /\ find_text hs (tlit (itTok it)) (itType it) = Some l.
Definition mov_patch (hs : list (text * text)) (im : impmov) (p : patch) : Prop :=
  exists l, p = (imCid im, imArg im, l) /\ assoc hs (mov_key (imToks im)) = Some l.

Lemma Forall2_imp {A B} (P Q : A -> B -> Prop) l1 l2 : (forall a b, P a b -> Q a b) -> Forall2 P l1 l2 -> Forall2 Q l1 l2.
Proof. intros I H. induction H; constructor; auto. Qed.

Lemma add_texts_patches : forall its h ps h' ps',
  add_texts its h ps = (h', ps') ->
  (forall v ty l, find_text (hset h) v ty = Some l -> find_text (hset h') v ty = Some l) /\
  hmset h' = hmset h /\
  exists new, ps' = ps ++ new /\ Forall2 (text_patch (hset h')) its new.
Proof.
  induction its as [|it r IH]; intros h ps h' ps' H.
  - inversion H; subst. split; [auto|]. split; [reflexivity|]. exists []. rewrite app_nil_r. split; [reflexivity|constructor].
  - cbn [add_texts] in H. destruct (find_text (hset h) (tlit (itTok it)) (itType it)) as [lbl|] eqn:F.
    + destruct (IH _ _ _ _ H) as (Mono & HM & new & Hps & Hall).
      split; [exact Mono|]. split; [exact HM|]. exists ((itCid it, itArg it, lbl) :: new). rewrite Hps, <- app_assoc. split; [reflexivity|].
      constructor; [|exact Hall]. exists lbl. split; [reflexivity|]. apply Mono. exact F.
    + match type of H with add_texts r ?hh _ = _ => set (h1 := hh) in * end.
      set (lbl := itScript it ++ t "_Text_" ++ nat_text (count_of (hcnt h) (itScript it))) in *.
      destruct (IH _ _ _ _ H) as (Mono & HM & new & Hps & Hall).
      split; [|split; [exact HM|]].
      * intros v ty l Hf. apply Mono. cbn [hset h1 find_text].
        destruct (text_eqb v (tlit (itTok it)) && text_eqb ty (itType it)) eqn:E; [|exact Hf].
        apply andb_prop in E. destruct E as [E1 E2]. apply text_eqb_true in E1, E2. subst. congruence.
      * exists ((itCid it, itArg it, lbl) :: new). rewrite Hps, <- app_assoc. split; [reflexivity|].
        constructor; [|exact Hall]. exists lbl. split; [reflexivity|]. apply Mono. cbn [hset h1 find_text].
        rewrite !text_eqb_refl. reflexivity.
Qed.

Lemma add_movs_patches : forall ims h ps h' ps',
  add_movs ims h ps = (h', ps') ->
  (forall k l, assoc (hmset h) k = Some l -> assoc (hmset h') k = Some l) /\
  hset h' = hset h /\
  exists new, ps' = ps ++ new /\ Forall2 (mov_patch (hmset h')) ims new.
Proof.
  induction ims as [|im r IH]; intros h ps h' ps' H.
  - inversion H; subst. split; [auto|]. split; [reflexivity|]. exists []. rewrite app_nil_r. split; [reflexivity|constructor].
  - cbn [add_movs] in H. destruct (assoc (hmset h) (mov_key (imToks im))) as [lbl|] eqn:F.
    + destruct (IH _ _ _ _ H) as (Mono & HS & new & Hps & Hall).
      split; [exact Mono|]. split; [exact HS|]. exists ((imCid im, imArg im, lbl) :: new). rewrite Hps, <- app_assoc. split; [reflexivity|].
      constructor; [|exact Hall]. exists lbl. split; [reflexivity|]. apply Mono. exact F.
    + match type of H with add_movs r ?hh _ = _ => set (h1 := hh) in * end.
      set (lbl := imScript im ++ t "_Movement_" ++ nat_text (count_of (hmcnt h) (imScript im))) in *.
      destruct (IH _ _ _ _ H) as (Mono & HS & new & Hps & Hall).
      split; [|split; [exact HS|]].
      * intros k l Hf. apply Mono. cbn [hmset h1 assoc].
        destruct (text_eqb (mov_key (imToks im)) k) eqn:E; [|exact Hf].
        apply text_eqb_true in E. subst. congruence.
      * exists ((imCid im, imArg im, lbl) :: new). rewrite Hps, <- app_assoc. split; [reflexivity|].
        constructor; [|exact Hall]. exists lbl. split; [reflexivity|]. apply Mono. cbn [hmset h1 assoc].
        rewrite text_eqb_refl. reflexivity.
Qed.

Lemma add_implicit_patches imp h h' ps :
  add_implicit imp h = (h', ps) ->
  exists pt pm, ps = pt ++ pm /\ Forall2 (text_patch (hset h')) (idT imp) pt /\ Forall2 (mov_patch (hmset h')) (idM imp) pm.
Proof.
  unfold add_implicit. destruct (add_texts (idT imp) h []) as [h1 ps1] eqn:E1. intros E2.
  destruct (add_texts_patches _ _ _ _ _ E1) as (_ & _ & pt & -> & Ft).
  destruct (add_movs_patches _ _ _ _ _ E2) as (_ & HS & pm & -> & Fm).
  exists pt, pm. split; [reflexivity|]. rewrite HS. split; assumption.
Qed.

(* the labels addressed to argument k of command i correspond one to one, in order, to the occurrences recorded for it *)
Definition addr_T (i k : nat) (it : imptext) : bool := Nat.eqb (itCid it) i && Nat.eqb (itArg it) k.
Definition addr_M (i k : nat) (im : impmov) : bool := Nat.eqb (imCid im) i && Nat.eqb (imArg im) k.

Lemma labels_for_texts hs its new i k : Forall2 (text_patch hs) its new ->
  Forall2 (fun it l => find_text hs (tlit (itTok it)) (itType it) = Some l) (filter (addr_T i k) its) (labels_for new i k).
Proof.
  induction 1 as [|it p its new (l & -> & Hl) _ IH]; [constructor|].
  unfold labels_for. cbn [flat_map filter Datatypes.fst Datatypes.snd]. fold (labels_for new i k). unfold addr_T at 1.
  destruct (Nat.eqb (itCid it) i && Nat.eqb (itArg it) k); cbn [app]; [constructor; assumption|assumption].
Qed.
Lemma labels_for_movs hs ims new i k : Forall2 (mov_patch hs) ims new ->
  Forall2 (fun im l => assoc hs (mov_key (imToks im)) = Some l) (filter (addr_M i k) ims) (labels_for new i k).
Proof.
  induction 1 as [|im p ims new (l & -> & Hl) _ IH]; [constructor|].
  unfold labels_for. cbn [flat_map filter Datatypes.fst Datatypes.snd]. fold (labels_for new i k). unfold addr_M at 1.
  destruct (Nat.eqb (imCid im) i && Nat.eqb (imArg im) k); cbn [app]; [constructor; assumption|assumption].
Qed.
Lemma text_patch_in hs its new : Forall2 (text_patch hs) its new ->
  forall i a l, In (i, a, l) new -> exists it, In it its /\ itCid it = i /\ itArg it = a.
Proof.
  induction 1 as [|it p its new (l0 & -> & _) _ IH]; intros i a l Hin; [destruct Hin|].
  destruct Hin as [E|Hin].
  - inversion E; subst. exists it. split; [now left|auto].
  - destruct (IH _ _ _ Hin) as (it' & H1 & H2). exists it'. split; [now right|exact H2].
Qed.
Lemma mov_patch_in hs ims new : Forall2 (mov_patch hs) ims new ->
  forall i a l, In (i, a, l) new -> exists im, In im ims /\ imCid im = i /\ imArg im = a.
Proof.
  induction 1 as [|im p ims new (l0 & -> & _) _ IH]; intros i a l Hin; [destruct Hin|].
  destruct Hin as [E|Hin].
  - inversion E; subst. exists im. split; [now left|auto].
  - destruct (IH _ _ _ Hin) as (im' & H1 & H2). exists im'. split; [now right|exact H2].
Qed.

Lemma filter_none {A} (f : A -> bool) l : (forall x, In x l -> f x = false) -> filter f l = [].
Proof. induction l as [|x l IH]; intros H; [reflexivity|]. cbn [filter]. rewrite (H x (or_introl eq_refl)). apply IH. intros y Hy. apply H. now right. Qed.
Lemma filter_all {A} (f : A -> bool) l : (forall x, In x l -> f x = true) -> filter f l = l.
Proof. induction l as [|x l IH]; intros H; [reflexivity|]. cbn [filter]. rewrite (H x (or_introl eq_refl)). f_equal. apply IH. intros y Hy. apply H. now right. Qed.

Section OCC.
Variable script : text.
Variable cmdtok : token.
Variable c : nat.

Lemma piece_texts_in k g it : In it (flat_map (piece_texts script c k) g) -> itCid it = c /\ itArg it = k.
Proof.
  induction g as [|p g IH]; [intros []|]. cbn [flat_map]. intros H. apply in_app_or in H. destruct H as [H|H]; [|exact (IH H)].
  destruct p; cbn [piece_texts] in H; try destruct H as [<-|[]]; try destruct H; split; reflexivity.
Qed.
Lemma piece_movs_in k g im : In im (flat_map (piece_movs script cmdtok c k) g) -> imCid im = c /\ imArg im = k.
Proof.
  induction g as [|p g IH]; [intros []|]. cbn [flat_map]. intros H. apply in_app_or in H. destruct H as [H|H]; [|exact (IH H)].
  destruct p; cbn [piece_movs] in H; try destruct H as [<-|[]]; try destruct H; split; reflexivity.
Qed.
Lemma groups_texts_in : forall gs n it, In it (groups_texts script c n gs) ->
  itCid it = c /\ (n <= itArg it < n + List.length (strip_last_empty gs))%nat.
Proof.
  induction gs as [|g r IH]; intros n it H; [destruct H|]. cbn [groups_texts] in H. apply in_app_or in H. destruct H as [H|H].
  - destruct (piece_texts_in _ _ _ H) as [H1 H2]. split; [exact H1|]. rewrite H2.
    destruct r as [|g' r']; cbn [strip_last_empty].
    + destruct g; [destruct H|]. cbn [List.length]. lia.
    + cbn [List.length]. lia.
  - destruct (IH _ _ H) as [H1 H2]. split; [exact H1|]. destruct r as [|g' r']; [destruct H|].
    change (strip_last_empty (g :: g' :: r')) with (g :: strip_last_empty (g' :: r')). cbn [List.length]. lia.
Qed.
Lemma groups_movs_in : forall gs n im, In im (groups_movs script cmdtok c n gs) ->
  imCid im = c /\ (n <= imArg im < n + List.length (strip_last_empty gs))%nat.
Proof.
  induction gs as [|g r IH]; intros n im H; [destruct H|]. cbn [groups_movs] in H. apply in_app_or in H. destruct H as [H|H].
  - destruct (piece_movs_in _ _ _ H) as [H1 H2]. split; [exact H1|]. rewrite H2.
    destruct r as [|g' r']; cbn [strip_last_empty].
    + destruct g; [destruct H|]. cbn [List.length]. lia.
    + cbn [List.length]. lia.
  - destruct (IH _ _ H) as [H1 H2]. split; [exact H1|]. destruct r as [|g' r']; [destruct H|].
    change (strip_last_empty (g :: g' :: r')) with (g :: strip_last_empty (g' :: r')). cbn [List.length]. lia.
Qed.

(* the occurrences recorded for argument k are exactly those of the k-th group *)
Lemma filter_groups_texts : forall gs n k,
  filter (addr_T c (n + k)) (groups_texts script c n gs) =
  match nth_error gs k with Some g => flat_map (piece_texts script c (n + k)) g | None => [] end.
Proof.
  induction gs as [|g r IH]; intros n k; [destruct k; reflexivity|]. cbn [groups_texts]. rewrite filter_app. destruct k as [|k]; cbn [nth_error].
  - rewrite Nat.add_0_r. rewrite filter_all, filter_none, app_nil_r; [reflexivity| |].
    + intros it H. destruct (groups_texts_in _ _ _ H) as [_ H2]. unfold addr_T. destruct (Nat.eqb_spec (itArg it) n); [lia|apply andb_false_r].
    + intros it H. destruct (piece_texts_in _ _ _ H) as [H1 H2]. unfold addr_T. rewrite H1, H2, !Nat.eqb_refl. reflexivity.
  - rewrite filter_none.
    + cbn [app]. replace (n + S k)%nat with (S n + k)%nat by lia. apply IH.
    + intros it H. destruct (piece_texts_in _ _ _ H) as [H1 H2]. unfold addr_T. destruct (Nat.eqb_spec (itArg it) (n + S k)); [lia|apply andb_false_r].
Qed.
Lemma filter_groups_movs : forall gs n k,
  filter (addr_M c (n + k)) (groups_movs script cmdtok c n gs) =
  match nth_error gs k with Some g => flat_map (piece_movs script cmdtok c (n + k)) g | None => [] end.
Proof.
  induction gs as [|g r IH]; intros n k; [destruct k; reflexivity|]. cbn [groups_movs]. rewrite filter_app. destruct k as [|k]; cbn [nth_error].
  - rewrite Nat.add_0_r. rewrite filter_all, filter_none, app_nil_r; [reflexivity| |].
    + intros im H. destruct (groups_movs_in _ _ _ H) as [_ H2]. unfold addr_M. destruct (Nat.eqb_spec (imArg im) n); [lia|apply andb_false_r].
    + intros im H. destruct (piece_movs_in _ _ _ H) as [H1 H2]. unfold addr_M. rewrite H1, H2, !Nat.eqb_refl. reflexivity.
  - rewrite filter_none.
    + cbn [app]. replace (n + S k)%nat with (S n + k)%nat by lia. apply IH.
    + intros im H. destruct (piece_movs_in _ _ _ H) as [H1 H2]. unfold addr_M. destruct (Nat.eqb_spec (imArg im) (n + S k)); [lia|apply andb_false_r].
Qed.
End OCC.

Definition is_inline (p : piece) : bool :=
  match p with PStr _ | PTyped _ _ | PFormat _ _ _ _ _ | PMoves _ _ _ => true | _ => false end.
Definition pure (g : list piece) : Prop := Forall (fun p => is_inline p = false) g.
(* content (with its terminator) and string type of an inline text piece *)
Definition inline_text (p : piece) : option (text * text) :=
  match p with
  | PStr tk => Some (terminate (tlit tk) [], [])
  | PTyped ty tk => Some (terminate (tlit tk) (tlit ty), tlit ty)
  | PFormat _ _ _ v sty => Some (terminate v sty, sty)
  | _ => None
  end.
(* a group with at most one inline piece *)
Definition simple_group (g : list piece) : Prop :=
  pure g \/ exists g1 p g2, g = g1 ++ p :: g2 /\ pure g1 /\ pure g2 /\ is_inline p = true.

Lemma pure_texts script c k g : pure g -> flat_map (piece_texts script c k) g = [].
Proof. induction 1 as [|p g Hp _ IH]; [reflexivity|]. cbn [flat_map]. rewrite IH. destruct p; try discriminate; reflexivity. Qed.
Lemma pure_movs script cmdtok c k g : pure g -> flat_map (piece_movs script cmdtok c k) g = [].
Proof. induction 1 as [|p g Hp _ IH]; [reflexivity|]. cbn [flat_map]. rewrite IH. destruct p; try discriminate; reflexivity. Qed.

Lemma strip_nth : forall gs k (g : list piece), nth_error (strip_last_empty gs) k = Some g -> nth_error gs k = Some g.
Proof.
  induction gs as [|g0 r IH]; intros k g H; [destruct k; discriminate|]. destruct r as [|g1 r'].
  - cbn [strip_last_empty] in H. destruct g0; [destruct k; discriminate|exact H].
  - change (strip_last_empty (g0 :: g1 :: r')) with (g0 :: strip_last_empty (g1 :: r')) in H.
    destruct k; [exact H|]. cbn [nth_error] in *. apply IH. exact H.
Qed.

Lemma Forall2_nth {A B} (R : A -> B -> Prop) : forall l1 l2, List.length l1 = List.length l2 ->
  (forall k x y, nth_error l1 k = Some x -> nth_error l2 k = Some y -> R x y) -> Forall2 R l1 l2.
Proof.
  induction l1 as [|x l1 IH]; intros [|y l2] L H; try discriminate; constructor.
  - apply (H O); reflexivity.
  - apply IH; [cbn in L; lia|]. intros k x' y' H1 H2. apply (H (S k)); assumption.
Qed.

Section FINAL.
Variable switches : list (text * text).
Variable env_errors : bool.
Variable parse_format : toks -> res (token * text * text * toks).
Variable consts : list (text * text).
Notation command_stmt := (command_stmt switches env_errors parse_format consts).
Notation wf_args := (wf_args switches env_errors parse_format).
Notation render_group := (render_group consts).

(* what the argument of a group is after hoisting and patching, given the final hoisting tables *)
Inductive arg_of (h' : hst) : list piece -> text -> Prop :=
| arg_plain g : pure g -> arg_of h' g (render_group g)
| arg_text g1 p g2 v sty l : pure g1 -> pure g2 -> inline_text p = Some (v, sty) ->
    find_text (hset h') v sty = Some l -> arg_of h' (g1 ++ p :: g2) l
| arg_moves g1 lt clo mv g2 l : pure g1 -> pure g2 ->
    assoc (hmset h') (mov_key mv) = Some l -> arg_of h' (g1 ++ PMoves lt clo mv :: g2) l.

(* [impB]/[impA]: the inline data of the other commands of the script, recorded before/after this command's *)
Theorem inline_arguments_become_labels : forall f script name lp (a : arglist) rp rest,
  ttype lp = LPAREN -> ttype rp = RPAREN ->
  wf_args a -> balanced (flat a) -> Forall simple_group (groups_of a) ->
  (List.length (arg_tokens a) < f)%nat ->
  forall c imp ts', command_stmt f script (name :: lp :: arg_tokens a ++ rp :: rest) = Ok (c, imp, ts') ->
  forall impB impA h h' ps,
    (forall it, In it (idT impB ++ idT impA) -> itCid it <> Ast.cid c) ->
    (forall im, In im (idM impB ++ idM impA) -> imCid im <> Ast.cid c) ->
    add_implicit (impadd impB (impadd imp impA)) h = (h', ps) ->
    exists args',
      pcmd ps c = {| cname := tlit name; cargs := args'; ctok := name; Ast.cid := Ast.cid c |} /\
      Forall2 (arg_of h') (strip_last_empty (groups_of a)) args'.
Proof.
  intros f script name lp a rp rest Hlp Hrp W Hb Hs HF c imp ts' E impB impA h h' ps FT FM HA.
  rewrite (command_with_arguments switches env_errors parse_format consts f script name lp a rp rest Hlp Hrp W Hb HF) in E.
  set (n := List.length (name :: lp :: arg_tokens a ++ rp :: rest)) in *.
  set (gs := groups_of a) in *.
  set (TC := groups_texts script n 0 gs) in *. set (MC := groups_movs script name n 0 gs) in *.
  assert (Ec : c = {| cname := tlit name; cargs := map render_group (strip_last_empty gs); ctok := name; Ast.cid := n |}) by congruence.
  assert (Ei : imp = {| idT := TC; idM := MC |}) by congruence.
  clear E. subst c imp. cbn [Ast.cid] in FT, FM.
  destruct (add_implicit_patches _ _ _ _ HA) as (pt & pm & -> & Ft & Fm).
  cbn [impadd idT idM] in Ft, Fm.
  set (c := {| cname := tlit name; cargs := map render_group (strip_last_empty gs); ctok := name; Ast.cid := n |}).
  destruct (apply_patches_spec (pt ++ pm) c) as (args' & EA & LA & NA).
  { intros i a0 l Hin Hi. cbn [c Ast.cid cargs] in *. rewrite map_length. apply in_app_or in Hin. destruct Hin as [Hin|Hin].
    - destruct (text_patch_in _ _ _ Ft _ _ _ Hin) as (it & Hit & H1 & H2).
      apply in_app_or in Hit. destruct Hit as [Hit|Hit]; [exfalso; apply (FT it); [apply in_or_app; now left|congruence]|].
      apply in_app_or in Hit. destruct Hit as [Hit|Hit]; [|exfalso; apply (FT it); [apply in_or_app; now right|congruence]].
      destruct (groups_texts_in _ _ _ _ _ Hit) as [_ H3]. lia.
    - destruct (mov_patch_in _ _ _ Fm _ _ _ Hin) as (im & Him & H1 & H2).
      apply in_app_or in Him. destruct Him as [Him|Him]; [exfalso; apply (FM im); [apply in_or_app; now left|congruence]|].
      apply in_app_or in Him. destruct Him as [Him|Him]; [|exfalso; apply (FM im); [apply in_or_app; now right|congruence]].
      destruct (groups_movs_in _ _ _ _ _ _ Him) as [_ H3]. lia. }
  exists args'. split; [unfold pcmd; rewrite EA; reflexivity|].
  cbn [c cargs cname ctok Ast.cid] in *. rewrite map_length in LA.
  apply Forall2_nth; [symmetry; exact LA|]. intros k g y Hg Hy.
  rewrite NA, (map_nth_error render_group _ _ Hg) in Hy.
  pose proof (strip_nth _ _ _ Hg) as Hg'.
  (* the labels addressed to argument k *)
  rewrite labels_for_app in Hy.
  pose proof (labels_for_texts _ _ _ n k Ft) as LT. pose proof (labels_for_movs _ _ _ n k Fm) as LM.
  rewrite !filter_app in LT, LM.
  rewrite (filter_none (addr_T n k) (idT impB)) in LT
    by (intros it Hit; unfold addr_T; destruct (Nat.eqb_spec (itCid it) n) as [X|X]; [exfalso; apply (FT it); [apply in_or_app; now left|exact X]|reflexivity]).
  rewrite (filter_none (addr_T n k) (idT impA)) in LT
    by (intros it Hit; unfold addr_T; destruct (Nat.eqb_spec (itCid it) n) as [X|X]; [exfalso; apply (FT it); [apply in_or_app; now right|exact X]|reflexivity]).
  rewrite (filter_none (addr_M n k) (idM impB)) in LM
    by (intros im Him; unfold addr_M; destruct (Nat.eqb_spec (imCid im) n) as [X|X]; [exfalso; apply (FM im); [apply in_or_app; now left|exact X]|reflexivity]).
  rewrite (filter_none (addr_M n k) (idM impA)) in LM
    by (intros im Him; unfold addr_M; destruct (Nat.eqb_spec (imCid im) n) as [X|X]; [exfalso; apply (FM im); [apply in_or_app; now right|exact X]|reflexivity]).
  cbn [app] in LT, LM. rewrite app_nil_r in LT, LM.
  unfold TC in LT. unfold MC in LM.
  pose proof (filter_groups_texts script n gs 0 k) as XT. pose proof (filter_groups_movs script name n gs 0 k) as XM.
  cbn [Nat.add] in XT, XM. rewrite XT in LT. rewrite XM in LM. clear XT XM.
  rewrite Hg' in LT, LM.
  assert (SG : simple_group g) by (eapply Forall_forall; [exact Hs|]; eapply nth_error_In; exact Hg').
  destruct SG as [P|(g1 & p & g2 & -> & P1 & P2 & Hp)].
  - rewrite (pure_texts script n k g P) in LT. rewrite (pure_movs script name n k g P) in LM.
    inversion LT as [|]; inversion LM as [|]. 
    match goal with H1 : [] = labels_for pt n k, H2 : [] = labels_for pm n k |- _ => rewrite <- H1, <- H2 in Hy end.
    cbn in Hy. inversion Hy; subst. apply arg_plain. exact P.
  - rewrite !flat_map_app in LT, LM. cbn [flat_map] in LT, LM.
    rewrite (pure_texts script n k g1 P1), (pure_texts script n k g2 P2) in LT.
    rewrite (pure_movs script name n k g1 P1), (pure_movs script name n k g2 P2) in LM.
    cbn [app] in LT, LM. rewrite app_nil_r in LT, LM.
    destruct p as [tk|tk|tk|tk|ty tk|lt clo tk v sty|lt clo mv]; try discriminate; cbn [piece_texts piece_movs] in LT, LM.
    all: inversion LT as [|it l1 its ls Hl HT E1 E2]; inversion LM as [|im l2 ims ls2 Hl2 HM E3 E4]; subst.
    all: repeat match goal with H : Forall2 _ [] _ |- _ => inversion H; clear H; subst end.
    all: repeat match goal with H1 : _ = labels_for _ _ _ |- _ => rewrite <- H1 in *; clear H1 end.
    all: cbn in Hy; inversion Hy; subst.
    + eapply arg_text; [exact P1|exact P2|reflexivity|exact Hl].
    + eapply arg_text; [exact P1|exact P2|reflexivity|exact Hl].
    + eapply arg_text; [exact P1|exact P2|reflexivity|exact Hl].
    + eapply arg_moves; [exact P1|exact P2|exact Hl2].
Qed.


Lemma pure_not_inline g1 p g2 : pure (g1 ++ p :: g2) -> is_inline p = false.
Proof. unfold pure. intros H. apply Forall_app in H. destruct H as [_ H]. exact (Forall_inv H). Qed.
Lemma arg_of_pure h' g x : pure g -> arg_of h' g x -> x = render_group g.
Proof.
  intros P H. inversion H as [g0 P0 E1 E2|g1 p g2 v sty l P1 P2 Hi Hf E1 E2|g1 lt clo mv g2 l P1 P2 Hf E1 E2]; subst.
  - reflexivity.
  - pose proof (pure_not_inline _ _ _ P) as N. destruct p; cbn in Hi, N; discriminate.
  - pose proof (pure_not_inline _ _ _ P) as N. discriminate.
Qed.

(* the class of commands of the property's quantifier - arguments made of identifiers, numbers, operators, keywords and nested
   parentheses, none empty: the line printed for the command after hoisting and patching is its name and its source tokens *)
Theorem plain_command_final_line : forall f script name lp (a : arglist) rp rest,
  ttype lp = LPAREN -> ttype rp = RPAREN ->
  wf_args a -> balanced (flat a) ->
  Forall (fun g => g <> [] /\ pure g) (groups_of a) ->
  (List.length (arg_tokens a) < f)%nat ->
  forall c imp ts', command_stmt f script (name :: lp :: arg_tokens a ++ rp :: rest) = Ok (c, imp, ts') ->
  forall impB impA h h' ps,
    (forall it, In it (idT impB ++ idT impA) -> itCid it <> Ast.cid c) ->
    (forall im, In im (idM impB ++ idM impA) -> imCid im <> Ast.cid c) ->
    add_implicit (impadd impB (impadd imp impA)) h = (h', ps) ->
    render_cmd (pcmd ps c) = tab ++ tlit name ++ t " " ++ line_of consts (flat a) ++ nl.
Proof.
  intros f script name lp a rp rest Hlp Hrp W Hb Hg HF c imp ts' E impB impA h h' ps FT FM HA.
  assert (Hne : Forall (fun g : list piece => g <> []) (groups_of a)) by (eapply Forall_impl; [|exact Hg]; intros g [H _]; exact H).
  assert (Hp : Forall pure (groups_of a)) by (eapply Forall_impl; [|exact Hg]; intros g [_ H]; exact H).
  assert (Hs : Forall simple_group (groups_of a)) by (eapply Forall_impl; [|exact Hp]; intros g H; left; exact H).
  destruct (inline_arguments_become_labels f script name lp a rp rest Hlp Hrp W Hb Hs HF c imp ts' E impB impA h h' ps FT FM HA)
    as (args' & EP' & F2).
  rewrite (strip_nonempty _ Hne) in F2.
  assert (EA : args' = map render_group (groups_of a)).
  { clear - F2 Hp. induction F2 as [|g x gs xs Hgx _ IH]; [reflexivity|]. cbn [map].
    rewrite (arg_of_pure _ _ _ (Forall_inv Hp) Hgx), (IH (Forall_inv_tail Hp)). reflexivity. }
  rewrite EP'. unfold groups_of in EA. cbn [map] in EA.
  rewrite (render_cmd_args _ _ _ (eq_trans (eq_refl : cargs {| cname := tlit name; cargs := args'; ctok := name; Ast.cid := Ast.cid c |} = args') EA)).
  cbn [cname]. rewrite ejoin_eq.
  change (render_group (Datatypes.fst a) :: map render_group (map (@Datatypes.snd _ _) (Datatypes.snd a)))
    with (map render_group (groups_of a)).
  rewrite (line_groups consts a Hne). reflexivity.
Qed.

End FINAL.

(* ---------- a straight-line stretch of command statements ---------- *)
Record cmdsrc := { cs_name : token; cs_args : option (token * arglist * token) }.
Definition cmd_tokens (c : cmdsrc) : list token :=
  cs_name c :: match cs_args c with None => [] | Some (lp, a, rp) => lp :: arg_tokens a ++ [rp] end.

Section BLOCK.
Variable autovars : list (text * autovar).
Variable switches : list (text * text).
Variable env_errors : bool.
Variable parse_format : toks -> res (token * text * text * toks).
Variable consts : list (text * text).
Notation command_stmt := (command_stmt switches env_errors parse_format consts).
Notation parse_stmt := (parse_stmt autovars switches env_errors parse_format consts).
Notation parse_block := (parse_block autovars switches env_errors parse_format consts).
Notation wf_args := (wf_args switches env_errors parse_format).
Notation wf_piece := (wf_piece switches env_errors parse_format).
Notation render_group := (render_group consts).

Definition wf_cmdsrc (c : cmdsrc) : Prop :=
  ttype (cs_name c) = IDENT /\
  match cs_args c with
  | None => True
  | Some (lp, a, rp) => ttype lp = LPAREN /\ ttype rp = RPAREN /\ wf_args a /\ balanced (flat a)
  end.
(* the command a source command is parsed to; n = number of tokens from its name to the end of the input (its id) *)
Definition parsed_cmd (c : cmdsrc) (n : nat) : cmd :=
  {| cname := tlit (cs_name c);
     cargs := match cs_args c with None => [] | Some (_, a, _) => map render_group (strip_last_empty (groups_of a)) end;
     ctok := cs_name c; Ast.cid := n |}.
Definition cmd_imp (script : text) (c : cmdsrc) (n : nat) : impdata :=
  match cs_args c with
  | None => imp0
  | Some (_, a, _) => {| idT := groups_texts script n 0 (groups_of a); idM := groups_movs script (cs_name c) n 0 (groups_of a) |}
  end.
Fixpoint block_cmds (l : list cmdsrc) (K : list token) : list stmt :=
  match l with
  | [] => []
  | c :: r => SCmd (parsed_cmd c (List.length (cmd_tokens c ++ flat_map cmd_tokens r ++ K))) :: block_cmds r K
  end.
Fixpoint block_imp (script : text) (l : list cmdsrc) (K : list token) (imp : impdata) : impdata :=
  match l with
  | [] => imp
  | c :: r => block_imp script r K (impadd imp (cmd_imp script c (List.length (cmd_tokens c ++ flat_map cmd_tokens r ++ K))))
  end.

Lemma pk2_cons (a b c : token) r : pk 2 (a :: b :: c :: r) = c. Proof. reflexivity. Qed.
Lemma pk3_cons (a b c d : token) r : pk 3 (a :: b :: c :: d :: r) = d. Proof. reflexivity. Qed.
Lemma pk4_cons (a b c d e : token) r : pk 4 (a :: b :: c :: d :: e :: r) = e. Proof. reflexivity. Qed.
Lemma peekis_cons ty (a b : token) r : peekis ty (a :: b :: r) = is ty b. Proof. reflexivity. Qed.

(* first token of a piece *)
Lemma piece_first p : wf_piece p -> exists x r, piece_toks p = x :: r /\
  (ttype x = RPAREN -> exists tk, p = PClose tk) /\ (ttype x = GLOBAL \/ ttype x = LOCAL -> p = PTok x /\ r = []).
Proof.
  destruct p as [tk|tk|tk|tk|ty tk|lt clo tk v sty|lt clo mv]; cbn [wf_piece piece_toks]; intros W.
  - exists tk, []. split; [reflexivity|]. split; [intros E; rewrite E in W; discriminate|auto].
  - exists tk, []. split; [reflexivity|]. split; [congruence|]. intros [E|E]; congruence.
  - exists tk, []. split; [reflexivity|]. split; [eauto|]. intros [E|E]; congruence.
  - exists tk, []. split; [reflexivity|]. split; [congruence|]. intros [E|E]; congruence.
  - destruct W as [W1 W2]. exists ty, [tk]. split; [reflexivity|]. split; [congruence|]. intros [E|E]; congruence.
  - destruct W as [(x & r & -> & Wx) _]. exists x, r. split; [reflexivity|]. split; [congruence|]. intros [E|E]; congruence.
  - destruct W as [(x & r & -> & Wx) _]. exists x, r. split; [reflexivity|]. split; [congruence|]. intros [E|E]; congruence.
Qed.

(* "name(global)" / "name(local)" directly closed is the only argument list that starts like a label scope *)
Lemma no_scope_shape (a : arglist) x x2 r : wf_args a -> balanced (flat a) ->
  arg_tokens a = x :: x2 :: r -> ttype x = GLOBAL \/ ttype x = LOCAL -> ttype x2 <> RPAREN.
Proof.
  destruct a as [g0 more]. unfold wf_args, flat, arg_tokens. cbn [Datatypes.fst Datatypes.snd]. intros [W0 Wm] Hb E Hx.
  pose proof (balanced_depth _ Hb O) as Hd. clear Hb.
  destruct g0 as [|p g0].
  - cbn [group_toks flat_map app] in E. destruct more as [|[c g] more]; [discriminate|].
    inversion Wm as [|? ? [Wc _] _]; subst. cbn in E. inversion E; subst. cbn [Datatypes.fst] in Wc. destruct Hx; congruence.
  - inversion W0 as [|? ? Wp Wg]; subst. destruct (piece_first p Wp) as (y & ry & Ep & _ & Hg).
    change (group_toks (p :: g0)) with (piece_toks p ++ group_toks g0) in E. rewrite Ep in E. cbn [app] in E.
    inversion E as [[E1 E2]]. subst y. destruct (Hg Hx) as [-> ->]. cbn [app] in E2.
    destruct g0 as [|p2 g0].
    + cbn [group_toks flat_map app] in E2. destruct more as [|[c g] more]; [discriminate|].
      inversion Wm as [|? ? [Wc _] _]; subst. cbn in E2. inversion E2; subst. cbn [Datatypes.fst] in Wc. congruence.
    + inversion Wg as [|? ? Wp2 _]; subst. destruct (piece_first p2 Wp2) as (y & ry & Ep2 & Hc & _).
      change (group_toks (p2 :: g0)) with (piece_toks p2 ++ group_toks g0) in E2. rewrite Ep2 in E2. cbn [app] in E2.
      inversion E2; subst. intros HR. destruct (Hc HR) as (tk & ->). cbn in Hd. discriminate.
Qed.

Lemma try_label_cmd name lp (a : arglist) rp y K :
  ttype lp = LPAREN -> ttype rp = RPAREN -> wf_args a -> balanced (flat a) -> ttype y <> COLON ->
  try_label (name :: lp :: arg_tokens a ++ rp :: y :: K) = None.
Proof.
  intros Hlp Hrp W Hb Hy. unfold try_label. rewrite !peekis_cons.
  rewrite (is_false COLON lp) by (rewrite Hlp; discriminate). rewrite (is_true LPAREN lp Hlp). cbn [andb].
  destruct (arg_tokens a) as [|x [|x2 r]] eqn:E; cbn [app].
  - rewrite pk2_cons. rewrite (is_false GLOBAL rp), (is_false LOCAL rp) by (rewrite Hrp; discriminate). reflexivity.
  - rewrite pk4_cons. rewrite (is_false COLON y Hy), andb_false_r. reflexivity.
  - rewrite pk2_cons, pk3_cons.
    destruct (is GLOBAL x || is LOCAL x) eqn:G; [|reflexivity].
    assert (Hx : ttype x = GLOBAL \/ ttype x = LOCAL).
    { apply orb_prop in G. unfold is, tt_eqb in G. destruct G as [G|G]; [left|right].
      - destruct (toktype_eq_dec (ttype x) GLOBAL); [assumption|discriminate].
      - destruct (toktype_eq_dec (ttype x) LOCAL); [assumption|discriminate]. }
    rewrite (is_false RPAREN x2 (no_scope_shape a x x2 r W Hb E Hx)). reflexivity.
Qed.

Lemma parse_stmt_eq f script bs cs ts :
  ttype (cur ts) = IDENT -> try_label ts = None ->
  parse_stmt (S f) script bs cs ts = (do (c, imp, ts1) <- command_stmt f script ts; Ok ([SCmd c], imp, ts1)).
Proof. intros H1 H2. rewrite parse_stmt_unfold, H1, H2. reflexivity. Qed.

(* a statement that starts with a command name and is not a label is the command statement *)
Theorem command_statement_without_parentheses : forall f script bs cs ts,
  ttype (cur ts) = IDENT -> peekis LPAREN ts = false -> peekis COLON ts = false ->
  parse_stmt (S f) script bs cs ts =
    Ok ([SCmd {| cname := tlit (cur ts); cargs := []; ctok := cur ts; Ast.cid := List.length ts |}], imp0, ts).
Proof.
  intros f script bs cs ts H1 H2 H3. rewrite parse_stmt_eq; [|exact H1|].
  - rewrite (command_without_parentheses switches env_errors parse_format consts f script ts H2). reflexivity.
  - unfold try_label. rewrite H3, H2. reflexivity.
Qed.

Theorem command_statement_with_arguments : forall f script bs cs name lp (a : arglist) rp y K,
  ttype name = IDENT -> ttype lp = LPAREN -> ttype rp = RPAREN -> wf_args a -> balanced (flat a) ->
  ttype y <> COLON ->
  (List.length (arg_tokens a) < f)%nat ->
  let ts := name :: lp :: arg_tokens a ++ rp :: y :: K in
  parse_stmt (S f) script bs cs ts =
    Ok ([SCmd {| cname := tlit name; cargs := map render_group (strip_last_empty (groups_of a)); ctok := name; Ast.cid := List.length ts |}],
        {| idT := groups_texts script (List.length ts) 0 (groups_of a);
           idM := groups_movs script name (List.length ts) 0 (groups_of a) |},
        rp :: y :: K).
Proof.
  intros f script bs cs name lp a rp y K Hn Hlp Hrp W Hb Hy HF ts. subst ts.
  rewrite parse_stmt_eq; [|exact Hn|exact (try_label_cmd name lp a rp y K Hlp Hrp W Hb Hy)].
  rewrite (command_with_arguments switches env_errors parse_format consts f script name lp a rp (y :: K) Hlp Hrp W Hb HF).
  reflexivity.
Qed.

Lemma stretch_first l K y K' : Forall wf_cmdsrc l -> K = y :: K' -> ttype y <> COLON -> ttype y <> LPAREN ->
  exists y1 K1, flat_map cmd_tokens l ++ K = y1 :: K1 /\ ttype y1 <> COLON /\ ttype y1 <> LPAREN.
Proof.
  intros W -> H1 H2. destruct l as [|c r]; [exists y, K'; auto|].
  inversion W as [|? ? [Wn _] _]; subst. cbn [flat_map cmd_tokens app]. eexists _, _. split; [reflexivity|].
  rewrite Wn. split; discriminate.
Qed.

(* A stretch of command statements inside a block: the block parser appends exactly one command statement per source
   command, in source order, and continues with what follows the stretch ([K], which starts with any token other than
   ':' and '(' - the next statement or the closing brace). *)
Theorem straight_line_commands : forall l, Forall wf_cmdsrc l ->
  forall F script bs cs start K y K' acc imp,
    K = y :: K' -> ttype y <> COLON -> ttype y <> LPAREN ->
    (List.length (flat_map cmd_tokens l) + 2 < F)%nat ->
    parse_block F script bs cs start (flat_map cmd_tokens l ++ K) acc imp =
    parse_block (F - List.length l) script bs cs start K (acc ++ block_cmds l K) (block_imp script l K imp).
Proof.
  induction l as [|c r IH]; intros W F script bs cs start K y K' acc imp EK Hy1 Hy2 HF.
  - cbn. rewrite Nat.sub_0_r, app_nil_r. reflexivity.
  - pose proof (Forall_inv W) as Wc. pose proof (Forall_inv_tail W) as Wr.
    destruct (stretch_first r K y K' Wr EK Hy1 Hy2) as (y1 & K1 & E1 & Hc1 & Hl1).
    cbn [flat_map] in *. rewrite app_length in HF.
    destruct F as [|[|f']]; try lia.
    replace (S (S f') - List.length (c :: r))%nat with (S f' - List.length r)%nat by (cbn [List.length]; lia).
    cbn [block_cmds block_imp]. rewrite <- app_assoc.
    set (n := List.length (cmd_tokens c ++ flat_map cmd_tokens r ++ K)).
    assert (IHr : forall acc' imp', parse_block (S f') script bs cs start (flat_map cmd_tokens r ++ K) acc' imp' =
               parse_block (S f' - List.length r) script bs cs start K (acc' ++ block_cmds r K) (block_imp script r K imp')).
    { intros acc' imp'. apply (IH Wr (S f') script bs cs start K y K' acc' imp' EK Hy1 Hy2).
      destruct c as [nm ar]. cbn [cmd_tokens List.length] in HF. lia. }
    destruct c as [name [[[lp a] rp]|]]; destruct Wc as [Wn Wa]; cbn [cs_name cs_args] in *.
    + (* with parentheses *)
      destruct Wa as (Hlp & Hrp & Wa & Hb).
      assert (ET : cmd_tokens {| cs_name := name; cs_args := Some (lp, a, rp) |} ++ flat_map cmd_tokens r ++ K
                   = name :: lp :: arg_tokens a ++ rp :: y1 :: K1).
      { unfold cmd_tokens at 1. cbn [cs_name cs_args app]. rewrite <- app_assoc. cbn [app]. rewrite E1. reflexivity. }
      unfold n. rewrite ET. rewrite parse_block_unfold.
      rewrite !curis_cons, (is_false RBRACE name), (is_false EOF name) by (rewrite Wn; discriminate).
      unfold cmd_tokens in HF. cbn [cs_name cs_args List.length] in HF. rewrite app_length in HF. cbn [List.length] in HF.
      rewrite (command_statement_with_arguments f' script bs cs name lp a rp y1 K1 Wn Hlp Hrp Wa Hb Hc1 ltac:(lia)).
      cbv zeta. cbn beta iota. rewrite (adv_cons rp) by discriminate. rewrite <- E1, IHr.
      rewrite E1. rewrite <- app_assoc. reflexivity.
    + (* bare name *)
      assert (ET : cmd_tokens {| cs_name := name; cs_args := None |} ++ flat_map cmd_tokens r ++ K = name :: y1 :: K1).
      { unfold cmd_tokens at 1. cbn [cs_name cs_args app]. rewrite E1. reflexivity. }
      unfold n. rewrite ET. rewrite parse_block_unfold.
      rewrite !curis_cons, (is_false RBRACE name), (is_false EOF name) by (rewrite Wn; discriminate).
      rewrite (command_statement_without_parentheses f' script bs cs (name :: y1 :: K1) Wn).
      * cbn beta iota. rewrite (adv_cons name) by discriminate. rewrite <- E1, IHr.
        rewrite E1. rewrite <- app_assoc. reflexivity.
      * rewrite peekis_cons. apply is_false. exact Hl1.
      * rewrite peekis_cons. apply is_false. exact Hc1.
Qed.

(* a block that consists of command statements only *)
Corollary block_of_commands : forall l, Forall wf_cmdsrc l ->
  forall F script bs cs start rb rest,
    ttype rb = RBRACE -> (List.length (flat_map cmd_tokens l) + 2 < F)%nat ->
    parse_block F script bs cs start (flat_map cmd_tokens l ++ rb :: rest) [] imp0 =
    Ok (block_cmds l (rb :: rest), block_imp script l (rb :: rest) imp0, rb :: rest).
Proof.
  intros l W F script bs cs start rb rest Hrb HF.
  rewrite (straight_line_commands l W F script bs cs start (rb :: rest) rb rest [] imp0 eq_refl) by (try exact HF; rewrite Hrb; discriminate).
  assert (List.length l <= List.length (flat_map cmd_tokens l))%nat.
  { clear. induction l as [|c r IH]; [apply le_n|]. cbn [flat_map]. rewrite app_length. unfold cmd_tokens at 1. cbn [List.length]. lia. }
  destruct (F - List.length l)%nat as [|f] eqn:EF; [lia|].
  rewrite parse_block_unfold, curis_cons, (is_true RBRACE rb Hrb). reflexivity.
Qed.

(* one command statement per source command, in order *)
Lemma block_cmds_map l K : exists ns, List.length ns = List.length l /\
  block_cmds l K = map (fun cn => SCmd (parsed_cmd (Datatypes.fst cn) (Datatypes.snd cn))) (combine l ns).
Proof.
  induction l as [|c r (ns & L & E)]; [exists []; split; reflexivity|].
  exists (List.length (cmd_tokens c ++ flat_map cmd_tokens r ++ K) :: ns). split; [cbn; now rewrite L|].
  cbn [block_cmds combine map Datatypes.fst Datatypes.snd]. rewrite E. reflexivity.
Qed.

End BLOCK.

(* ---------- the moves(...) hypothesis holds for plain movement lists ---------- *)
Inductive mstep :=
| MOne (id : token)                         (* walk_up *)
| MRep (id mul n : token) (k : Z)           (* walk_up * 3 *)
| MComma (c : token).
Definition step_toks (s : mstep) : list token :=
  match s with MOne id => [id] | MRep id mul n _ => [id; mul; n] | MComma c => [c] end.
Definition step_out (s : mstep) : list token :=
  match s with MOne id => [id] | MRep id _ _ k => repeat_tok (Z.to_nat k) id | MComma _ => [] end.
Definition wf_mstep (s : mstep) : Prop :=
  match s with
  | MOne id => ttype id = IDENT
  | MRep id mul n k => ttype id = IDENT /\ ttype mul = MUL /\ ttype n = INT /\ go_parse_int (tlit n) = Some k /\ (0 < k <= 9999)%Z
  | MComma c => ttype c = COMMA
  end.

Section MOVES.
Variable switches : list (text * text).
Variable env_errors : bool.
Notation list_value := (list_value switches env_errors).
Notation moves_operator := (moves_operator switches env_errors).

Lemma steps_first steps clo R : Forall wf_mstep steps -> ttype clo = RPAREN ->
  exists z Z, flat_map step_toks steps ++ clo :: R = z :: Z /\ ttype z <> MUL.
Proof.
  intros W Hc. destruct steps as [|s r]; [exists clo, R; split; [reflexivity|congruence]|].
  pose proof (Forall_inv W) as Ws. destruct s as [id|id mul n k|c]; cbn [flat_map step_toks app wf_mstep] in *;
    eexists _, _; (split; [reflexivity|]).
  - congruence.
  - destruct Ws as [E _]. congruence.
  - congruence.
Qed.

Lemma steps_run : forall steps, Forall wf_mstep steps -> forall f clo R acc,
  ttype clo = RPAREN -> (List.length steps < f)%nat ->
  list_value f (LMov RPAREN) true (flat_map step_toks steps ++ clo :: R) acc = Ok (acc ++ flat_map step_out steps, clo :: R).
Proof.
  induction steps as [|s r IH]; intros W f clo R acc Hc HF; (destruct f as [|f]; [cbn in HF; lia|]); rewrite list_value_unfold; cbv zeta.
  - cbn [flat_map app]. rewrite curis_cons, (is_true RPAREN clo Hc), app_nil_r. reflexivity.
  - pose proof (Forall_inv W) as Ws. pose proof (Forall_inv_tail W) as Wr.
    destruct (steps_first r clo R Wr Hc) as (z & Z & EZ & Hz).
    cbn [List.length] in HF.
    destruct s as [id|id mul n k|c]; cbn [flat_map step_toks step_out wf_mstep] in *; rewrite <- app_assoc; cbn [app].
    + rewrite !curis_cons. rewrite (is_false RPAREN id), (is_false PORYSWITCH id), (is_true IDENT id Ws) by (rewrite Ws; discriminate).
      rewrite cur_cons. rewrite EZ. rewrite (adv_cons id) by discriminate. rewrite curis_cons, (is_false MUL z Hz).
      rewrite <- EZ, (IH Wr f clo R _ Hc ltac:(lia)), <- app_assoc. reflexivity.
    + destruct Ws as (Wi & Wm & Wn & Wk & Wr1 & Wr2).
      rewrite !curis_cons. rewrite (is_false RPAREN id), (is_false PORYSWITCH id), (is_true IDENT id Wi) by (rewrite Wi; discriminate).
      rewrite cur_cons. rewrite (adv_cons id) by discriminate. rewrite curis_cons, (is_true MUL mul Wm).
      rewrite (adv_cons mul) by discriminate. rewrite curis_cons, (is_true INT n Wn). cbn [negb]. rewrite cur_cons, Wk.
      destruct (Z.leb_spec k 0); [lia|]. destruct (Z.gtb_spec k 9999); [lia|].
      rewrite EZ, (adv_cons n) by discriminate. rewrite <- EZ, (IH Wr f clo R _ Hc ltac:(lia)), <- app_assoc. reflexivity.
    + rewrite !curis_cons. rewrite (is_false RPAREN c), (is_false PORYSWITCH c), (is_false IDENT c), (is_true COMMA c Ws) by (rewrite Ws; discriminate).
      rewrite EZ, (adv_cons c) by discriminate. rewrite <- EZ, (IH Wr f clo R _ Hc ltac:(lia)). reflexivity.
Qed.

(* moves ( step ... step ) *)
Theorem plain_moves_accepted : forall steps mvtok lp clo,
  Forall wf_mstep steps -> ttype lp = LPAREN -> ttype clo = RPAREN ->
  let lt := mvtok :: lp :: flat_map step_toks steps ++ [clo] in
  forall f R, (List.length lt <= f)%nat -> R <> [] ->
    moves_operator f (lt ++ R) = Ok (flat_map step_out steps, clo :: R).
Proof.
  intros steps mvtok lp clo W Hlp Hc lt f R HF HR. subst lt. cbn [app List.length] in *. rewrite <- app_assoc. cbn [app].
  unfold Parser.moves_operator, expect_peek. rewrite peekis_cons, (is_true LPAREN lp Hlp).
  assert (NE : flat_map step_toks steps ++ clo :: R <> []) by (destruct (flat_map step_toks steps); discriminate).
  rewrite (adv_cons mvtok) by discriminate. rewrite (adv_cons lp _ NE). unfold movement_value.
  rewrite app_length in HF. cbn [List.length] in HF.
  assert (List.length steps <= List.length (flat_map step_toks steps))%nat.
  { clear. induction steps as [|s r IH]; [apply le_n|]. cbn [flat_map]. rewrite app_length. destruct s; cbn [step_toks List.length]; lia. }
  rewrite (steps_run steps W f clo R [] Hc ltac:(lia)). reflexivity.
Qed.
End MOVES.

(* ---------- a stretch of commands, after hoisting and patching ---------- *)
Lemma apply_patches_foreign : forall ps c, (forall i a l, In (i, a, l) ps -> i <> Ast.cid c) -> apply_patches ps c = Some c.
Proof.
  induction ps as [|[[i a] l] r IH]; intros c H; [reflexivity|]. cbn [apply_patches].
  destruct (Nat.eqb_spec i (Ast.cid c)) as [E|_]; [exfalso; exact (H i a l (or_introl eq_refl) E)|].
  apply IH. intros i0 a0 l0 Hin. apply (H i0 a0 l0). now right.
Qed.
Lemma add_implicit_ext a b h : idT a = idT b -> idM a = idM b -> add_implicit a h = add_implicit b h.
Proof. intros H1 H2. unfold add_implicit. rewrite H1, H2. reflexivity. Qed.

Section HOIST.
Variable switches : list (text * text).
Variable env_errors : bool.
Variable parse_format : toks -> res (token * text * text * toks).
Variable consts : list (text * text).
Notation wf_cmdsrc := (wf_cmdsrc switches env_errors parse_format).
Notation parsed_cmd := (parsed_cmd consts).
Notation block_cmds := (block_cmds consts).
Notation arg_of := (arg_of consts).

Definition cmd_groups (c : cmdsrc) : list (list piece) :=
  match cs_args c with None => [] | Some (_, a, _) => strip_last_empty (groups_of a) end.
Definition simple_cmdsrc (c : cmdsrc) : Prop :=
  match cs_args c with None => True | Some (_, a, _) => Forall simple_group (groups_of a) end.

Lemma block_imp_T script l K : forall X, idT (block_imp script l K X) = idT X ++ idT (block_imp script l K imp0).
Proof.
  induction l as [|c r IH]; intros X; [cbn; now rewrite app_nil_r|]. cbn [block_imp].
  rewrite IH. rewrite (IH (impadd imp0 _)). cbn [impadd idT imp0 app]. symmetry. apply app_assoc.
Qed.
Lemma block_imp_M script l K : forall X, idM (block_imp script l K X) = idM X ++ idM (block_imp script l K imp0).
Proof.
  induction l as [|c r IH]; intros X; [cbn; now rewrite app_nil_r|]. cbn [block_imp].
  rewrite IH. rewrite (IH (impadd imp0 _)). cbn [impadd idM imp0 app]. symmetry. apply app_assoc.
Qed.
Lemma cmd_imp_T script c n it : In it (idT (cmd_imp script c n)) -> itCid it = n.
Proof.
  unfold cmd_imp. destruct (cs_args c) as [[[lp a] rp]|]; [|intros []]. cbn [idT]. intros H.
  exact (proj1 (groups_texts_in _ _ _ _ _ H)).
Qed.
Lemma cmd_imp_M script c n im : In im (idM (cmd_imp script c n)) -> imCid im = n.
Proof.
  unfold cmd_imp. destruct (cs_args c) as [[[lp a] rp]|]; [|intros []]. cbn [idM]. intros H.
  exact (proj1 (groups_movs_in _ _ _ _ _ _ H)).
Qed.
Lemma block_imp_T_le script l K : forall it, In it (idT (block_imp script l K imp0)) ->
  (itCid it <= List.length (flat_map cmd_tokens l ++ K))%nat.
Proof.
  induction l as [|c r IH]; intros it H; [destruct H|]. cbn [block_imp] in H. rewrite block_imp_T in H.
  cbn [impadd idT imp0 app] in H. apply in_app_or in H. cbn [flat_map]. rewrite <- app_assoc. destruct H as [H|H].
  - rewrite (cmd_imp_T _ _ _ _ H). apply le_n.
  - pose proof (IH _ H). rewrite (app_length (cmd_tokens c)). lia.
Qed.
Lemma block_imp_M_le script l K : forall im, In im (idM (block_imp script l K imp0)) ->
  (imCid im <= List.length (flat_map cmd_tokens l ++ K))%nat.
Proof.
  induction l as [|c r IH]; intros im H; [destruct H|]. cbn [block_imp] in H. rewrite block_imp_M in H.
  cbn [impadd idM imp0 app] in H. apply in_app_or in H. cbn [flat_map]. rewrite <- app_assoc. destruct H as [H|H].
  - rewrite (cmd_imp_M _ _ _ _ H). apply le_n.
  - pose proof (IH _ H). rewrite (app_length (cmd_tokens c)). lia.
Qed.

(* what a source command has become *)
Definition final_cmd (h' : hst) (c : cmdsrc) (s : stmt) : Prop :=
  exists args' n, s = SCmd {| cname := tlit (cs_name c); cargs := args'; ctok := cs_name c; Ast.cid := n |} /\
                  Forall2 (arg_of h') (cmd_groups c) args'.

(* [impB]: inline data recorded in the script before the stretch, [impA]: after it ([K] = the tokens after the stretch);
   the ids of commands are the lengths of the remaining input, so earlier commands have larger ids *)
Theorem stretch_hoisted : forall script l K, Forall wf_cmdsrc l -> Forall simple_cmdsrc l ->
  forall impB impA h h' ps,
    (forall it, In it (idT impB) -> (List.length (flat_map cmd_tokens l ++ K) < itCid it)%nat) ->
    (forall im, In im (idM impB) -> (List.length (flat_map cmd_tokens l ++ K) < imCid im)%nat) ->
    (forall it, In it (idT impA) -> (itCid it <= List.length K)%nat) ->
    (forall im, In im (idM impA) -> (imCid im <= List.length K)%nat) ->
    add_implicit (impadd (block_imp script l K impB) impA) h = (h', ps) ->
    Forall2 (final_cmd h') l (map (pstmt ps) (block_cmds l K)).
Proof.
  intros script l K. induction l as [|c r IH]; intros W Sm impB impA h h' ps BT BM AT AM HA; [constructor|].
  pose proof (Forall_inv W) as Wc. pose proof (Forall_inv_tail W) as Wr.
  pose proof (Forall_inv Sm) as Sc. pose proof (Forall_inv_tail Sm) as Sr.
  cbn [flat_map] in BT, BM. rewrite <- app_assoc in BT, BM.
  cbn [block_cmds map block_imp] in *.
  set (n := List.length (cmd_tokens c ++ flat_map cmd_tokens r ++ K)) in *.
  assert (Hn : (List.length (flat_map cmd_tokens r ++ K) < n)%nat).
  { unfold n. rewrite (app_length (cmd_tokens c)).
    assert (1 <= List.length (cmd_tokens c))%nat by (unfold cmd_tokens; cbn [List.length]; lia). lia. }
  assert (HK : (List.length K < n)%nat) by (rewrite app_length in Hn; lia).
  constructor.
  - (* the head command *)
    set (impA' := impadd (block_imp script r K imp0) impA).
    assert (HA' : add_implicit (impadd impB (impadd (cmd_imp script c n) impA')) h = (h', ps)).
    { rewrite <- HA. apply add_implicit_ext; unfold impA'; cbn [impadd idT idM].
      - rewrite (block_imp_T script r K (impadd _ _)). cbn [impadd idT]. now rewrite <- !app_assoc.
      - rewrite (block_imp_M script r K (impadd _ _)). cbn [impadd idM]. now rewrite <- !app_assoc. }
    assert (FT : forall it, In it (idT impB ++ idT impA') -> itCid it <> n).
    { intros it H. apply in_app_or in H. destruct H as [H|H]; [pose proof (BT it H); lia|].
      unfold impA' in H. cbn [impadd idT] in H. apply in_app_or in H. destruct H as [H|H].
      - pose proof (block_imp_T_le _ _ _ _ H). lia.
      - pose proof (AT it H). lia. }
    assert (FM : forall im, In im (idM impB ++ idM impA') -> imCid im <> n).
    { intros im H. apply in_app_or in H. destruct H as [H|H]; [pose proof (BM im H); lia|].
      unfold impA' in H. cbn [impadd idM] in H. apply in_app_or in H. destruct H as [H|H].
      - pose proof (block_imp_M_le _ _ _ _ H). lia.
      - pose proof (AM im H). lia. }
    destruct c as [name [[[lp a] rp]|]]; destruct Wc as [Wn Wa]; unfold final_cmd, cmd_groups, simple_cmdsrc in *; cbn [cs_name cs_args pstmt] in *.
    + destruct Wa as (Hlp & Hrp & Wa & Hb).
      assert (En : n = List.length (name :: lp :: arg_tokens a ++ rp :: flat_map cmd_tokens r ++ K)).
      { unfold n, cmd_tokens. cbn [cs_name cs_args app]. rewrite <- app_assoc. reflexivity. }
      pose proof (command_with_arguments switches env_errors parse_format consts (S (List.length (arg_tokens a))) script
                    name lp a rp (flat_map cmd_tokens r ++ K) Hlp Hrp Wa Hb (Nat.lt_succ_diag_r _)) as E.
      cbv zeta in E. rewrite <- En in E.
      destruct (inline_arguments_become_labels switches env_errors parse_format consts _ script name lp a rp _ Hlp Hrp Wa Hb Sc
                  (Nat.lt_succ_diag_r _) _ _ _ E impB impA' h h' ps FT FM HA') as (args' & EP' & F2).
      exists args', n. split; [|exact F2]. f_equal. exact EP'.
    + exists [], n. split; [|constructor]. f_equal. unfold pcmd.
      rewrite apply_patches_foreign; [reflexivity|]. cbn [Ast.cid parsed_cmd].
      destruct (add_implicit_patches _ _ _ _ HA') as (pt & pm & -> & Ft & Fm). cbn [impadd idT idM cmd_imp cs_args imp0 app] in Ft, Fm.
      intros i a0 l0 Hin. apply in_app_or in Hin. destruct Hin as [Hin|Hin].
      * destruct (text_patch_in _ _ _ Ft _ _ _ Hin) as (it & Hit & <- & _). apply FT. exact Hit.
      * destruct (mov_patch_in _ _ _ Fm _ _ _ Hin) as (im & Him & <- & _). apply FM. exact Him.
  - (* the rest of the stretch *)
    apply (IH Wr Sr (impadd impB (cmd_imp script c n)) impA h h' ps); try assumption.
    + intros it H. cbn [impadd idT] in H. apply in_app_or in H. destruct H as [H|H]; [pose proof (BT it H); lia|].
      rewrite (cmd_imp_T _ _ _ _ H). exact Hn.
    + intros im H. cbn [impadd idM] in H. apply in_app_or in H. destruct H as [H|H]; [pose proof (BM im H); lia|].
      rewrite (cmd_imp_M _ _ _ _ H). exact Hn.
Qed.
End HOIST.

(* a block (for instance a script body) made of command statements: what the parser returns for it, hoisted and patched the way
   [parse_tops] does it for a script, is the list of its commands, in order, with the arguments described by [arg_of] *)
Section BODY.
Variable autovars : list (text * autovar).
Variable switches : list (text * text).
Variable env_errors : bool.
Variable parse_format : toks -> res (token * text * text * toks).
Variable consts : list (text * text).
Notation parse_block := (parse_block autovars switches env_errors parse_format consts).

Theorem block_of_commands_hoisted : forall l,
  Forall (wf_cmdsrc switches env_errors parse_format) l -> Forall simple_cmdsrc l ->
  forall F script bs cs start rb rest b imp ts',
    ttype rb = RBRACE -> (List.length (flat_map cmd_tokens l) + 2 < F)%nat ->
    parse_block F script bs cs start (flat_map cmd_tokens l ++ rb :: rest) [] imp0 = Ok (b, imp, ts') ->
    ts' = rb :: rest /\
    forall h h' ps, add_implicit imp h = (h', ps) -> Forall2 (final_cmd consts h') l (map (pstmt ps) b).
Proof.
  intros l W Sm F script bs cs start rb rest b imp ts' Hrb HF E.
  rewrite (block_of_commands autovars switches env_errors parse_format consts l W F script bs cs start rb rest Hrb HF) in E.
  inversion E; subst. split; [reflexivity|]. intros h h' ps HA.
  apply (stretch_hoisted switches env_errors parse_format consts script l (rb :: rest) W Sm imp0 imp0 h h' ps); try (intros ? []).
  rewrite <- HA. apply add_implicit_ext; cbn [impadd idT idM imp0]; apply app_nil_r.
Qed.
End BODY.

(* ---------- the hypotheses are satisfiable: a concrete command ---------- *)
Section EXAMPLE.
Definition T (ty : toktype) (s : string) : token :=
  {| ttype := ty; tlit := t s; tline := 1; tsb := 0; tsu := 0; teline := 1; teb := 0; teu := 0 |}.
Let sw : list (text * text) := [].
Let pf : toks -> res (token * text * text * toks) := fun _ => Panic.
Let cs : list (text * text) := [(t "SPEED", t "0x10")].

(*   applymovement(PLAYER, SPEED * (BASE, 2), "hi", moves(walk_up * 2 face_down))   *)
Let mv_steps := [MRep (T IDENT "walk_up") (T MUL "*") (T INT "2") 2; MOne (T IDENT "face_down")].
Let mv_toks := T MOVES "moves" :: T LPAREN "(" :: flat_map step_toks mv_steps ++ [T RPAREN ")"].
Let ex_args : arglist :=
  ([PTok (T IDENT "PLAYER")],
   [(T COMMA ",", [PTok (T IDENT "SPEED"); PTok (T MUL "*"); POpen (T LPAREN "("); PTok (T IDENT "BASE")]);
    (T COMMA ",", [PTok (T INT "2"); PClose (T RPAREN ")")]);
    (T COMMA ",", [PStr (T STRING "hi")]);
    (T COMMA ",", [PMoves mv_toks (T RPAREN ")") (flat_map step_out mv_steps)])]).

Example ex_wf : wf_args sw false pf ex_args /\ balanced (flat ex_args) /\
                Forall (fun g => g <> []) (groups_of ex_args) /\ Forall simple_group (groups_of ex_args).
Proof.
  split; [|split; [|split]].
  - split; cbn [Datatypes.fst Datatypes.snd ex_args].
    + apply Forall_cons; [reflexivity|apply Forall_nil].
    + repeat (apply Forall_cons; [split; [reflexivity|cbn [Datatypes.snd]]|]); try apply Forall_nil.
      * repeat (apply Forall_cons; [reflexivity|]); apply Forall_nil.
      * repeat (apply Forall_cons; [reflexivity|]); apply Forall_nil.
      * repeat (apply Forall_cons; [reflexivity|]); apply Forall_nil.
      * apply Forall_cons; [|apply Forall_nil]. split; [eexists _, _; split; reflexivity|].
        apply (plain_moves_accepted sw false mv_steps (T MOVES "moves") (T LPAREN "(") (T RPAREN ")")); try reflexivity.
        apply Forall_cons; [|apply Forall_cons; [reflexivity|apply Forall_nil]].
        cbn. repeat split; try reflexivity; lia.
  - cbn. apply bal_other; [reflexivity|]. apply bal_other; [reflexivity|]. apply bal_other; [reflexivity|]. apply bal_other; [reflexivity|].
    apply (bal_paren _ [EP (PTok (T IDENT "BASE")); EComma (T COMMA ","); EP (PTok (T INT "2"))]).
    + repeat (apply bal_other; [reflexivity|]). apply bal_nil.
    + repeat (apply bal_other; [reflexivity|]). apply bal_nil.
  - repeat constructor; discriminate.
  - unfold groups_of. cbn [map Datatypes.fst Datatypes.snd ex_args].
    repeat (apply Forall_cons; [|]); try apply Forall_nil.
    + left. repeat (apply Forall_cons; [reflexivity|]); apply Forall_nil.
    + left. repeat (apply Forall_cons; [reflexivity|]); apply Forall_nil.
    + left. repeat (apply Forall_cons; [reflexivity|]); apply Forall_nil.
    + right. exists [], (PStr (T STRING "hi")), []. split; [reflexivity|]. split; [apply Forall_nil|]. split; [apply Forall_nil|reflexivity].
    + right. eexists [], _, []. split; [reflexivity|]. split; [apply Forall_nil|]. split; [apply Forall_nil|reflexivity].
Qed.

(* what the model computes on this input agrees with the theorems: five arguments (the comma inside the nested
   parentheses separates arguments too), the constant is substituted, the placeholders of "hi" and moves() are empty *)
Example ex_run :
  let ts := T IDENT "applymovement" :: T LPAREN "(" :: arg_tokens ex_args ++ [T RPAREN ")"; T RBRACE "}"; T EOF ""] in
  exists c imp, command_stmt sw false pf cs 100 (t "S") ts = Ok (c, imp, [T RPAREN ")"; T RBRACE "}"; T EOF ""]) /\
    cargs c = [t "PLAYER"; t "0x10 * ( BASE"; t "2 )"; []; []] /\
    cargs c = map (render_group cs) (groups_of ex_args) /\
    render_cmd c = tab ++ t "applymovement PLAYER, 0x10 * ( BASE, 2 ), , " ++ nl /\
    List.length (idT imp) = 1%nat /\ List.length (idM imp) = 1%nat.
Proof. eexists _, _. split; [vm_compute; reflexivity|]. repeat split; vm_compute; reflexivity. Qed.

(* after hoisting and patching the two placeholders are the labels *)
Example ex_patched :
  let ts := T IDENT "applymovement" :: T LPAREN "(" :: arg_tokens ex_args ++ [T RPAREN ")"; T RBRACE "}"; T EOF ""] in
  exists c imp h' ps, command_stmt sw false pf cs 100 (t "S") ts = Ok (c, imp, [T RPAREN ")"; T RBRACE "}"; T EOF ""]) /\
    add_implicit imp hst0 = (h', ps) /\
    render_cmd (pcmd ps c) = tab ++ t "applymovement PLAYER, 0x10 * ( BASE, 2 ), S_Text_0, S_Movement_0" ++ nl.
Proof. eexists _, _, _, _. split; [vm_compute; reflexivity|]. split; vm_compute; reflexivity. Qed.

(* the format() hypothesis holds for the real format parser, e.g. on  format("hi")  *)
Example ex_format :
  let fc := {| Format.fcDefault := []; Format.fcFonts := [] |} in
  exists tk v sty,
    wf_piece sw false (Format.parse_format fc [] 0%Z false)
      (PFormat [T FORMAT "format"; T LPAREN "("; T STRING "hi"; T RPAREN ")"] (T RPAREN ")") tk v sty).
Proof.
  eexists _, _, _. split; [eexists _, _; split; reflexivity|]. intros R _. cbn [app]. vm_compute. reflexivity.
Qed.
End EXAMPLE.

(* ---------- for every token stream: the patches of a command's own inline data never fail ---------- *)
Section BOUNDS.
Variable switches : list (text * text).
Variable env_errors : bool.
Variable parse_format : toks -> res (token * text * text * toks).
Variable consts : list (text * text).
Notation command_args := (command_args switches env_errors parse_format consts).
Notation command_stmt := (command_stmt switches env_errors parse_format consts).

Definition pc (parts : list text) : nat := match parts with [] => 0 | _ => 1 end.
Lemma pc_snoc parts x : pc (parts ++ [x]) = 1%nat.
Proof. destruct parts; reflexivity. Qed.
Lemma pc_le parts : (pc parts <= 1)%nat.
Proof. destruct parts; cbn; lia. Qed.

Lemma command_args_bounds script cmdtok cidv : forall f ts depth parts args T M r i ts',
  command_args f script cmdtok cidv ts depth parts args {| idT := T; idM := M |} = Ok (r, i, ts') ->
  (List.length args + pc parts <= List.length r)%nat /\
  exists nT nM, i = {| idT := T ++ nT; idM := M ++ nM |} /\
    Forall (fun it => itCid it = cidv /\ (itArg it < List.length r)%nat) nT /\
    Forall (fun im => imCid im = cidv /\ (imArg im < List.length r)%nat) nM.
Proof.
  induction f as [|f IH]; intros ts depth parts args T M r i ts' H; [discriminate|].
  rewrite command_args_unfold in H. cbv zeta in H. cbn [idT idM] in H.
  pose proof (pc_le parts) as Hpc.
  destruct (curis RPAREN ts && Nat.eqb depth 0).
  { inversion H; subst. split.
    - destruct parts; cbn [pc]; [lia|]. unfold flush_arg. rewrite app_length. cbn. lia.
    - exists [], []. rewrite !app_nil_r. split; [reflexivity|]. split; constructor. }
  destruct (curis EOF ts); [discriminate|].
  destruct (curis COMMA ts).
  { destruct (IH _ _ _ _ _ _ _ _ _ H) as (L & nT & nM & E & FT & FM). unfold flush_arg in L. rewrite app_length in L. cbn in L.
    split; [lia|]. exists nT, nM. auto. }
  destruct (curis LPAREN ts).
  { destruct (IH _ _ _ _ _ _ _ _ _ H) as (L & nT & nM & E & FT & FM). rewrite pc_snoc in L. split; [lia|]. exists nT, nM. auto. }
  destruct (curis RPAREN ts).
  { destruct (IH _ _ _ _ _ _ _ _ _ H) as (L & nT & nM & E & FT & FM). rewrite pc_snoc in L. split; [lia|]. exists nT, nM. auto. }
  destruct (curis FORMAT ts).
  { destruct (parse_format ts) as [[[[tk v] sty] ts1]| | |]; try discriminate.
    destruct (IH _ _ _ _ _ _ _ _ _ H) as (L & nT & nM & E & FT & FM). rewrite pc_snoc in L. split; [lia|].
    eexists (_ :: nT), nM. rewrite <- app_assoc in E. split; [exact E|]. split; [|exact FM].
    constructor; [|exact FT]. cbn [itCid itArg]. split; [reflexivity|lia]. }
  destruct (curis STRING ts).
  { destruct (IH _ _ _ _ _ _ _ _ _ H) as (L & nT & nM & E & FT & FM). rewrite pc_snoc in L. split; [lia|].
    eexists (_ :: nT), nM. rewrite <- app_assoc in E. split; [exact E|]. split; [|exact FM].
    constructor; [|exact FT]. cbn [itCid itArg]. split; [reflexivity|lia]. }
  destruct (curis STRINGTYPE ts).
  { destruct (negb (curis STRING (adv ts))); [discriminate|].
    destruct (IH _ _ _ _ _ _ _ _ _ H) as (L & nT & nM & E & FT & FM). rewrite pc_snoc in L. split; [lia|].
    eexists (_ :: nT), nM. rewrite <- app_assoc in E. split; [exact E|]. split; [|exact FM].
    constructor; [|exact FT]. cbn [itCid itArg]. split; [reflexivity|lia]. }
  destruct (curis MOVES ts).
  { destruct (moves_operator switches env_errors f ts) as [[mv ts1]| | |]; try discriminate.
    destruct (IH _ _ _ _ _ _ _ _ _ H) as (L & nT & nM & E & FT & FM). rewrite pc_snoc in L. split; [lia|].
    eexists nT, (_ :: nM). rewrite <- app_assoc in E. split; [exact E|]. split; [exact FT|].
    constructor; [|exact FM]. cbn [imCid imArg]. split; [reflexivity|lia]. }
  destruct (IH _ _ _ _ _ _ _ _ _ H) as (L & nT & nM & E & FT & FM). rewrite pc_snoc in L. split; [lia|]. exists nT, nM. auto.
Qed.

(* every inline text / movement recorded by a command statement is addressed to that command and to one of its arguments *)
Theorem command_inline_data_in_range : forall f script ts c imp ts',
  command_stmt f script ts = Ok (c, imp, ts') ->
  cname c = tlit (cur ts) /\ ctok c = cur ts /\ Ast.cid c = List.length ts /\
  Forall (fun it => itCid it = Ast.cid c /\ (itArg it < List.length (cargs c))%nat) (idT imp) /\
  Forall (fun im => imCid im = Ast.cid c /\ (imArg im < List.length (cargs c))%nat) (idM imp).
Proof.
  intros f script ts c imp ts' H. unfold Parser.command_stmt in H. destruct (peekis LPAREN ts).
  - unfold imp0 in H.
    destruct (command_args f script (cur ts) (List.length ts) (adv (adv ts)) 0 [] [] {| idT := []; idM := [] |})
      as [[[args i] ts1]| | |] eqn:E; try discriminate.
    inversion H; subst. cbn [cname ctok Ast.cid cargs].
    destruct (command_args_bounds _ _ _ _ _ _ _ _ _ _ _ _ _ E) as (_ & nT & nM & -> & FT & FM).
    cbn [idT idM app]. auto.
  - inversion H; subst. cbn. repeat split; constructor.
Qed.

(* hence, whatever the token stream was: hoisting and patching keep the command, its name and its number of arguments
   (the model's failure marker for an out-of-range patch is never produced) *)
Theorem patching_keeps_command : forall f script ts c imp ts',
  command_stmt f script ts = Ok (c, imp, ts') ->
  forall impB impA h h' ps,
    (forall it, In it (idT impB ++ idT impA) -> itCid it <> Ast.cid c) ->
    (forall im, In im (idM impB ++ idM impA) -> imCid im <> Ast.cid c) ->
    add_implicit (impadd impB (impadd imp impA)) h = (h', ps) ->
    exists args', pcmd ps c = {| cname := cname c; cargs := args'; ctok := ctok c; Ast.cid := Ast.cid c |} /\
      List.length args' = List.length (cargs c).
Proof.
  intros f script ts c imp ts' H impB impA h h' ps FT FM HA.
  destruct (command_inline_data_in_range _ _ _ _ _ _ H) as (_ & _ & _ & BT & BM).
  destruct (add_implicit_patches _ _ _ _ HA) as (pt & pm & -> & Ft & Fm). cbn [impadd idT idM] in Ft, Fm.
  destruct (apply_patches_spec (pt ++ pm) c) as (args' & EA & LA & _).
  { intros i a l Hin Hi. apply in_app_or in Hin. destruct Hin as [Hin|Hin].
    - destruct (text_patch_in _ _ _ Ft _ _ _ Hin) as (it & Hit & H1 & H2).
      apply in_app_or in Hit. destruct Hit as [Hit|Hit]; [exfalso; apply (FT it); [apply in_or_app; now left|congruence]|].
      apply in_app_or in Hit. destruct Hit as [Hit|Hit]; [|exfalso; apply (FT it); [apply in_or_app; now right|congruence]].
      rewrite Forall_forall in BT. destruct (BT it Hit). lia.
    - destruct (mov_patch_in _ _ _ Fm _ _ _ Hin) as (im & Him & H1 & H2).
      apply in_app_or in Him. destruct Him as [Him|Him]; [exfalso; apply (FM im); [apply in_or_app; now left|congruence]|].
      apply in_app_or in Him. destruct Him as [Him|Him]; [|exfalso; apply (FM im); [apply in_or_app; now right|congruence]].
      rewrite Forall_forall in BM. destruct (BM im Him). lia. }
  exists args'. split; [unfold pcmd; rewrite EA; reflexivity|exact LA].
Qed.
End BOUNDS.
