(* C05: -optimize changes the layout of script code only.

   (b1) program_is_assembly: the output of a program is an assembly of pieces (program_pieces, a function of the program
        that does not take the optimize flag): data pieces - raw statements, movements, marts, mapscripts headers and
        tables, blank separators, the texts - and script pieces; emit_program_instrs is, for both settings and including the
        error cases, the assembly of these pieces where a script piece is rendered by emit_script with the flag.
        program_layout / optimize_changes_script_code_only / optimize_changes_script_text_only: hence the data segments of
        the two outputs are identical and in the same positions; the script segments are the two renderings of the same
        script.  program_pieces_scripts / script_pieces_are_program_bodies: the script pieces are the scripts of the program.
   (b2) script_labels_both: the label definitions of a rendered script are, in either setting: the script label with its
        scope, the label statements of the body (at any depth, with their scopes, each as often as written) and generated
        local sub-labels name_i for pairwise distinct i, each the target of a generated jump.
   (b3) script_code_same_multiset: everything in the code of a script except goto lines, blank lines and label lines is the
        same multiset in both outputs; script_commands_same_multiset: in particular the command lines.
   (c2) optimized_gotos_go_backward: in the optimized output every generated goto jumps backwards - its label is not
        defined anywhere after it; no_goto_to_a_later_label_optimized: in particular it is not the next label.
        goto_to_next_label_partial (either setting, PARTIAL): a goto followed - blank lines and markers aside - by its own
        label can only happen across an empty chunk that nothing jumps to; no_goto_to_next_label_checked: an executable
        check of the output that excludes it.  EXAMPLES.ascending_order_needs_scoping: for optimize = false the statement
        is false in the model under the source check src_ok alone (a body that is not well scoped, never produced by the
        parser).
   Also: optimize_accepts_same_scripts / optimize_accepts_same_programs (both settings accept the same inputs) and the
   versions of the script theorems for the scripts of every accepted program (section FROM_SOURCE). *)
From Coq Require Import List String Ascii ZArith NArith Lia Bool Permutation.
From Pory Require Import Lexer Ast Emitter EmitProps RenderSim RenderCheck C17Proofs Worklist WorkRefs WorkLabels WorkShape
  OrderPerm LabelsUnique LabelSim Tr NameClash RenderFromSource.
Import ListNotations.
Open Scope list_scope.

(* ================================================================================================================== *)
(* (b1) the layout of a program                                                                                        *)
(* ================================================================================================================== *)
Inductive piece :=
| PData (is : list instr)                                   (* emitted as is *)
| PScript (name : text) (glob : bool) (body : list stmt).    (* emitted by emit_script *)

Lemma bind_i_assoc {A B C} (r : res A) (f : A -> res B) (g : B -> res C) :
  bind_i (bind_i r f) g = bind_i r (fun x => bind_i (f x) g).
Proof. destruct r; reflexivity. Qed.
Lemma bind_i_ext {A B} (r : res A) (f g : A -> res B) : (forall x, f x = g x) -> bind_i r f = bind_i r g.
Proof. intros H. destruct r; cbn; auto. Qed.

Section LAYOUT.
Variable mp : option text.

Definition scripts_pieces (l : list (text * option (list stmt))) : list piece :=
  flat_map (fun nb : text * option (list stmt) => match snd nb with Some b => [PScript (fst nb) false b] | None => [] end) l.

Definition table_head (tb : tablems) : list instr :=
  [ILabel (tmName tb) false] ++
  flat_map (fun e => marker mp (tline (teCond e)) ++ [ILine (tab ++ t "map_script_2 " ++ teCondLit e ++ t ", " ++ teCmp e ++ t ", " ++ teName e)]) (tmEntries tb) ++
  [ILine (tab ++ t ".2byte 0"); IBlank].

Definition tables_pieces (l : list tablems) : list piece :=
  flat_map (fun tb => PData (table_head tb) :: scripts_pieces (map (fun e => (teName e, teScript e)) (tmEntries tb))) l.

Definition mapscripts_head (name : text) (glob : bool) (plain : list mapscript) (tables : list tablems) : list instr :=
  [ILabel name glob] ++
  flat_map (fun m => marker mp (tline (msType m)) ++ [ILine (tab ++ t "map_script " ++ tlit (msType m) ++ t ", " ++ msName m)]) plain ++
  flat_map (fun tb => marker mp (tline (tmType tb)) ++ [ILine (tab ++ t "map_script " ++ tlit (tmType tb) ++ t ", " ++ tmName tb)]) tables ++
  [ILine (tab ++ t ".byte 0"); IBlank].

Definition top_pieces (tp : top) : option (list piece) :=
  match tp with
  | TScript n g b => Some [PScript n g b]
  | TRaw v ln => Some [PData (emit_raw mp v ln)]
  | TTextStmt => None
  | TMovement n g tk steps => Some [PData (emit_movement mp n g tk steps)]
  | TMart n g tk items itoks => Some [PData (emit_mart mp n g tk items itoks)]
  | TMapScripts n g plain tables =>
      Some (PData (mapscripts_head n g plain tables) :: scripts_pieces (map (fun m => (msName m, msScript m)) plain) ++ tables_pieces tables)
  end.

Fixpoint tops_pieces (l : list top) (i : nat) : list piece * nat :=
  match l with
  | [] => ([], i)
  | tp :: r =>
      match top_pieces tp with
      | None => tops_pieces r i
      | Some ps => let '(rest, n) := tops_pieces r (S i) in
                   ((match i with O => [] | _ => [PData [IBlank]] end) ++ ps ++ rest, n)
      end
  end.

(* the pieces of a program: no optimize flag anywhere *)
Definition program_pieces (p : program) : list piece :=
  let '(ps, n) := tops_pieces (tops p) 0 in ps ++ [PData (emit_texts mp (texts p) n)].

Variable tl : list text.
Variable opt : bool.

(* putting the pieces together; the first script that fails decides the error *)
Fixpoint assemble (ps : list piece) : res (list instr) :=
  match ps with
  | [] => Ok []
  | PData is :: r => bind_i (assemble r) (fun y => Ok (is ++ y))
  | PScript n g b :: r => bind_i (emit_script mp tl n g opt b) (fun x => bind_i (assemble r) (fun y => Ok (x ++ y)))
  end.

Lemma assemble_app a : forall b,
  assemble (a ++ b) = bind_i (assemble a) (fun x => bind_i (assemble b) (fun y => Ok (x ++ y))).
Proof.
  induction a as [|[is|n g body] r IH]; intros b; cbn [app assemble].
  - cbn. destruct (assemble b); reflexivity.
  - rewrite IH, !bind_i_assoc. apply bind_i_ext. intros x. cbn. rewrite bind_i_assoc. apply bind_i_ext. intros y. cbn.
    now rewrite app_assoc.
  - rewrite IH, !bind_i_assoc. apply bind_i_ext. intros x. rewrite !bind_i_assoc. apply bind_i_ext. intros y. cbn.
    rewrite bind_i_assoc. apply bind_i_ext. intros z. cbn. now rewrite app_assoc.
Qed.

Lemma emit_scripts_assemble l : emit_scripts mp tl opt l = assemble (scripts_pieces l).
Proof.
  induction l as [|[n [b|]] r IH]; cbn [emit_scripts scripts_pieces flat_map snd fst app]; [reflexivity| |exact IH].
  fold (scripts_pieces r). cbn [assemble]. now rewrite IH.
Qed.

Lemma emit_tables_assemble l : emit_tables mp tl opt l = assemble (tables_pieces l).
Proof.
  induction l as [|tb r IH]; [reflexivity|]. cbn [emit_tables tables_pieces flat_map]. fold (tables_pieces r).
  fold (table_head tb). cbn [app assemble]. rewrite assemble_app, emit_scripts_assemble, IH, bind_i_assoc.
  apply bind_i_ext. intros x. rewrite !bind_i_assoc. apply bind_i_ext. intros y. cbn. now rewrite <- !app_assoc.
Qed.

Lemma emit_top_assemble tp :
  match emit_top mp tl opt tp, top_pieces tp with
  | Some r, Some ps => r = assemble ps
  | None, None => True
  | _, _ => False
  end.
Proof.
  destruct tp as [n g b|v ln| |n g tk steps|n g tk items itoks|n g plain tables]; cbn [emit_top top_pieces assemble].
  - destruct (emit_script mp tl n g opt b); cbn; now rewrite ?app_nil_r.
  - cbn. now rewrite app_nil_r.
  - exact Logic.I.
  - cbn. now rewrite app_nil_r.
  - cbn. now rewrite app_nil_r.
  - unfold emit_mapscripts. fold (mapscripts_head n g plain tables).
    rewrite assemble_app, emit_scripts_assemble, emit_tables_assemble, bind_i_assoc.
    apply bind_i_ext. intros x. rewrite !bind_i_assoc. apply bind_i_ext. intros y. cbn. now rewrite <- !app_assoc.
Qed.

Lemma emit_tops_assemble l : forall i,
  emit_tops mp tl opt l i = bind_i (assemble (fst (tops_pieces l i))) (fun x => Ok (x, snd (tops_pieces l i))).
Proof.
  induction l as [|tp r IH]; intros i; cbn [emit_tops tops_pieces]; [reflexivity|].
  pose proof (emit_top_assemble tp) as H.
  destruct (emit_top mp tl opt tp) as [rt|]; destruct (top_pieces tp) as [ps|]; try contradiction; [|apply IH].
  subst rt. rewrite IH. destruct (tops_pieces r (S i)) as [rest n]. cbn [fst snd].
  destruct i as [|i]; cbn [app].
  - rewrite assemble_app, !bind_i_assoc. apply bind_i_ext. intros x. rewrite !bind_i_assoc. apply bind_i_ext. intros y. reflexivity.
  - cbn [assemble]. rewrite assemble_app, !bind_i_assoc. apply bind_i_ext. intros x. rewrite !bind_i_assoc. apply bind_i_ext. intros y. reflexivity.
Qed.
End LAYOUT.

(* THEOREM (b1): for every program, both settings, success and errors alike, the emitted instruction list is the assembly of
   the program's pieces; the flag only reaches emit_script *)
Theorem program_is_assembly opt mp p :
  emit_program_instrs opt mp p = assemble mp (map xname (texts p)) opt (program_pieces mp p).
Proof.
  unfold emit_program_instrs, program_pieces. rewrite emit_tops_assemble.
  destruct (tops_pieces mp (tops p) 0) as [ps n]. cbn [fst snd]. rewrite assemble_app. cbn [assemble].
  destruct (assemble mp (map xname (texts p)) opt ps); cbn; rewrite ?app_nil_r; reflexivity.
Qed.

(* a piece and the code that realizes it *)
Definition realizes (mp : option text) (tl : list text) (opt : bool) (pc : piece) (code : list instr) : Prop :=
  match pc with
  | PData is => code = is
  | PScript n g b => emit_script mp tl n g opt b = Ok code
  end.

Lemma assemble_ok_iff mp tl opt ps : forall code,
  assemble mp tl opt ps = Ok code <-> exists codes, Forall2 (realizes mp tl opt) ps codes /\ code = List.concat codes.
Proof.
  induction ps as [|[is|n g b] r IH]; intros code; cbn [assemble].
  - split.
    + intros H; inversion H; subst. exists []. split; [constructor|reflexivity].
    + intros (codes & F & ->). inversion F; subst. reflexivity.
  - destruct (assemble mp tl opt r) as [y| | | |] eqn:E; cbn [bind_i];
      try (split; [discriminate|]; intros (codes & F & ->); inversion F as [|? c ? cs R F']; subst;
           exfalso; assert (X : exists codes, Forall2 (realizes mp tl opt) r codes /\ List.concat cs = List.concat codes) by eauto;
           apply IH in X; discriminate X).
    split.
    + intros H; inversion H; subst. destruct (proj1 (IH y) eq_refl) as (codes & F & ->).
      exists (is :: codes). split; [constructor; [reflexivity|exact F]|reflexivity].
    + intros (codes & F & ->). inversion F as [|? c ? cs R F']; subst. cbn [realizes] in R. subst c. cbn [List.concat].
      assert (X : Ok y = Ok (List.concat cs)) by (apply IH; eauto). inversion X; subst. reflexivity.
  - destruct (emit_script mp tl n g opt b) as [x| | | |] eqn:ES; cbn [bind_i];
      try (split; [discriminate|]; intros (codes & F & ->); inversion F as [|? c ? cs R F']; subst; cbn [realizes] in R; rewrite ES in R; discriminate R).
    destruct (assemble mp tl opt r) as [y| | | |] eqn:E; cbn [bind_i];
      try (split; [discriminate|]; intros (codes & F & ->); inversion F as [|? c ? cs R F']; subst;
           exfalso; assert (X : exists codes, Forall2 (realizes mp tl opt) r codes /\ List.concat cs = List.concat codes) by eauto;
           apply IH in X; discriminate X).
    split.
    + intros H; inversion H; subst. destruct (proj1 (IH y) eq_refl) as (codes & F & ->).
      exists (x :: codes). split; [constructor; [exact ES|exact F]|reflexivity].
    + intros (codes & F & ->). inversion F as [|? c ? cs R F']; subst. cbn [realizes] in R. rewrite ES in R. inversion R; subst. cbn [List.concat].
      assert (X : Ok y = Ok (List.concat cs)) by (apply IH; eauto). inversion X; subst. reflexivity.
Qed.

(* the program is accepted iff each of its scripts is rendered, and then the output is the concatenation, in order, of the
   data pieces and the rendered scripts *)
Theorem program_layout opt mp p code :
  emit_program_instrs opt mp p = Ok code <->
  exists codes, Forall2 (realizes mp (map xname (texts p)) opt) (program_pieces mp p) codes /\ code = List.concat codes.
Proof. rewrite program_is_assembly. apply assemble_ok_iff. Qed.

(* the two outputs side by side *)
Inductive same_layout (mp : option text) (tl : list text) : list piece -> list (list instr) -> list (list instr) -> Prop :=
| sl_nil : same_layout mp tl [] [] []
| sl_data is ps a b : same_layout mp tl ps a b -> same_layout mp tl (PData is :: ps) (is :: a) (is :: b)
| sl_script n g body ps x y a b :
    emit_script mp tl n g false body = Ok x -> emit_script mp tl n g true body = Ok y ->
    same_layout mp tl ps a b -> same_layout mp tl (PScript n g body :: ps) (x :: a) (y :: b).

Lemma same_layout_intro mp tl ps : forall a b,
  Forall2 (realizes mp tl false) ps a -> Forall2 (realizes mp tl true) ps b -> same_layout mp tl ps a b.
Proof.
  induction ps as [|[is|n g body] r IH]; intros a b Fa Fb; inversion Fa as [|? x ? a' Ra Fa']; inversion Fb as [|? y ? b' Rb Fb']; subst.
  - constructor.
  - cbn [realizes] in Ra, Rb. subst. constructor. auto.
  - cbn [realizes] in Ra, Rb. constructor; auto.
Qed.

(* THEOREM (b1), comparative form: when both settings produce output, the two outputs are concatenations of segments that
   correspond one to one: a data segment (raw statement, movement, mart, mapscripts header or table, blank separator, the
   texts) is the same instruction list in both outputs; a script segment is the rendering of the same script (name, scope,
   body) with optimize off in one and on in the other *)
Theorem optimize_changes_script_code_only mp p code0 code1 :
  emit_program_instrs false mp p = Ok code0 -> emit_program_instrs true mp p = Ok code1 ->
  exists segs0 segs1, same_layout mp (map xname (texts p)) (program_pieces mp p) segs0 segs1 /\
                      code0 = List.concat segs0 /\ code1 = List.concat segs1.
Proof.
  intros H0 H1. apply program_layout in H0, H1. destruct H0 as (a & Fa & ->). destruct H1 as (b & Fb & ->).
  exists a, b. split; [apply same_layout_intro; assumption|split; reflexivity].
Qed.

(* the same for the printed text *)
Lemma flat_map_concat {A B} (f : A -> list B) (l : list (list A)) : flat_map f (List.concat l) = List.concat (map (flat_map f) l).
Proof. induction l as [|x r IH]; [reflexivity|]. cbn. now rewrite flat_map_app, IH. Qed.

Theorem optimize_changes_script_text_only mp p out0 out1 :
  emit_program false mp p = Ok out0 -> emit_program true mp p = Ok out1 ->
  exists segs0 segs1, same_layout mp (map xname (texts p)) (program_pieces mp p) segs0 segs1 /\
                      out0 = List.concat (map (print_instrs mp) segs0) /\ out1 = List.concat (map (print_instrs mp) segs1).
Proof.
  unfold emit_program. intros H0 H1.
  destruct (emit_program_instrs false mp p) as [c0| | | |] eqn:E0; try discriminate.
  destruct (emit_program_instrs true mp p) as [c1| | | |] eqn:E1; try discriminate.
  destruct (optimize_changes_script_code_only mp p c0 c1 E0 E1) as (a & b & S & -> & ->).
  exists a, b. split; [exact S|]. inversion H0; inversion H1; subst. unfold print_instrs. now rewrite !flat_map_concat.
Qed.

(* the script pieces are the scripts of the program (script statements and inline mapscripts), in emission order *)
Definition piece_scripts (ps : list piece) : list NameClash.script :=
  flat_map (fun pc => match pc with PScript n g b => [(n, g, b)] | PData _ => [] end) ps.
Lemma piece_scripts_app a b : piece_scripts (a ++ b) = piece_scripts a ++ piece_scripts b.
Proof. apply flat_map_app. Qed.

Lemma scripts_pieces_scripts l : piece_scripts (scripts_pieces l) = sc_of l.
Proof.
  induction l as [|[n [b|]] r IH]; [reflexivity| |exact IH].
  unfold scripts_pieces, sc_of. cbn [flat_map snd fst app]. fold (scripts_pieces r). fold (sc_of r).
  cbn [piece_scripts flat_map app]. fold (piece_scripts (scripts_pieces r)). now rewrite IH.
Qed.

Lemma top_pieces_scripts mp tp :
  piece_scripts (match top_pieces mp tp with Some ps => ps | None => [] end) = scripts_of_top tp.
Proof.
  destruct tp as [n g b|v ln| |n g tk steps|n g tk items itoks|n g plain tables]; try reflexivity.
  cbn [top_pieces scripts_of_top]. change (PData ?x :: ?l) with ([PData x] ++ l). rewrite !piece_scripts_app, scripts_pieces_scripts.
  cbn [piece_scripts flat_map app]. f_equal.
  - unfold sc_of. induction plain as [|m q IH]; [reflexivity|]. cbn [map flat_map snd fst]. rewrite IH. reflexivity.
  - induction tables as [|tb q IH]; [reflexivity|]. cbn [tables_pieces flat_map]. fold (tables_pieces mp q).
    change (PData ?x :: ?l) with ([PData x] ++ l). rewrite !piece_scripts_app, scripts_pieces_scripts, IH. cbn [piece_scripts flat_map app]. f_equal.
    unfold sc_of. induction (tmEntries tb) as [|e q' IH']; [reflexivity|]. cbn [map flat_map snd fst]. rewrite IH'. reflexivity.
Qed.

Lemma tops_pieces_scripts mp l : forall i, piece_scripts (fst (tops_pieces mp l i)) = scripts_of l.
Proof.
  induction l as [|tp r IH]; intros i; [reflexivity|]. cbn [tops_pieces]. unfold scripts_of. cbn [flat_map]. fold (scripts_of r).
  rewrite <- (top_pieces_scripts mp tp). destruct (top_pieces mp tp) as [ps|]; [|apply IH].
  specialize (IH (S i)). destruct (tops_pieces mp r (S i)) as [rest n]. cbn [fst] in *.
  rewrite !piece_scripts_app, IH. destruct i; reflexivity.
Qed.

Theorem program_pieces_scripts mp p : piece_scripts (program_pieces mp p) = scripts_of (tops p).
Proof.
  unfold program_pieces. pose proof (tops_pieces_scripts mp (tops p) 0) as H.
  destruct (tops_pieces mp (tops p) 0) as [ps n]. cbn [fst] in H. rewrite piece_scripts_app, H. cbn. now rewrite app_nil_r.
Qed.

(* ================================================================================================================== *)
(* scripts: generic facts about the rendered blocks, for every chunk order                                            *)
(* ================================================================================================================== *)
Lemma perm_flat_map_app {A B} (f g : A -> list B) l :
  Permutation (flat_map (fun x => f x ++ g x) l) (flat_map f l ++ flat_map g l).
Proof.
  induction l as [|x r IH]; [reflexivity|]. cbn [flat_map]. rewrite <- !app_assoc. apply Permutation_app_head.
  etransitivity; [apply Permutation_app_head; exact IH|]. rewrite !app_assoc. apply Permutation_app_tail. apply Permutation_app_comm.
Qed.

Lemma flat_map_on_map {A B C} (f : A -> B) (g : B -> list C) l : flat_map (fun x => g (f x)) l = flat_map g (map f l).
Proof. induction l as [|x r IH]; [reflexivity|]. cbn. now rewrite IH. Qed.

Lemma Permutation_filter' {A} (f : A -> bool) l l' : Permutation l l' -> Permutation (filter f l) (filter f l').
Proof.
  induction 1 as [|x l l' _ IH|x y l|l l' l'' _ IH1 _ IH2]; cbn [filter].
  - constructor.
  - destruct (f x); [constructor|]; exact IH.
  - destruct (f x), (f y); try reflexivity. constructor.
  - etransitivity; eassumption.
Qed.

Lemma filter_filter_impl {A} (f g : A -> bool) l : (forall x, f x = true -> g x = true) -> filter f (filter g l) = filter f l.
Proof.
  intros H. induction l as [|x r IH]; [reflexivity|]. cbn [filter]. destruct (g x) eqn:Gx; cbn [filter].
  - now rewrite IH.
  - rewrite IH. destruct (f x) eqn:Fx; [|reflexivity]. apply H in Fx. congruence.
Qed.

Lemma app_split_mid {A} (a b : list A) : forall pre x post, a ++ b = pre ++ x :: post ->
  (exists m, a = pre ++ x :: m /\ post = m ++ b) \/ (exists m, pre = a ++ m /\ b = m ++ x :: post).
Proof.
  induction a as [|y a IH]; intros pre x post E.
  - right. exists pre. split; [reflexivity|exact E].
  - destruct pre as [|z pre]; cbn [app] in E.
    + inversion E; subst. left. exists a. split; reflexivity.
    + inversion E as [[E1 E2]]. subst z. destruct (IH _ _ _ E2) as [(m & -> & ->)|(m & -> & ->)].
      * left. exists m. split; reflexivity.
      * right. exists m. split; reflexivity.
Qed.

Lemma rchunks_cons G i r : rchunks G (i :: r) = match get_chunk G i with Some c => [c] | None => [] end ++ rchunks G r.
Proof. reflexivity. Qed.

Lemma rchunks_cids G order : (forall i, In i order -> exists c, get_chunk G i = Some c) -> map cid (rchunks G order) = order.
Proof.
  induction order as [|i r IH]; intros H; [reflexivity|]. rewrite rchunks_cons.
  destruct (H i (or_introl eq_refl)) as (c & E). rewrite E. cbn [app map]. rewrite (get_chunk_cid' _ _ _ E). f_equal.
  apply IH. intros j Hj. apply H. now right.
Qed.

(* instructions that carry the layout: goto lines, blank lines, label lines *)
Definition essential (i : instr) : bool := match i with IGoto _ | IBlank | ILabel _ _ => false | _ => true end.
Definition is_cmd (i : instr) : bool := match i with ICmd _ => true | _ => false end.
Definition isgoto (i : instr) : bool := match i with IGoto _ => true | _ => false end.
Definition nog (l : list instr) : Prop := forallb (fun i => negb (isgoto i)) l = true.
Lemma nog_app a b : nog (a ++ b) <-> nog a /\ nog b.
Proof. unfold nog. rewrite forallb_app. apply andb_true_iff. Qed.
Lemma nog_nil : nog []. Proof. reflexivity. Qed.

(* a switch chunk without default whose continuation is the end of the script *)
Definition corner (c : chunk) : Prop := exists op ol cases, cbr c = Some (BrSwitch op ol cases None (-1)%Z).

Section BLK.
Variable mp : option text.
Variable name : text.

Lemma nog_marker line : nog (marker mp line).
Proof. unfold marker. destruct mp; reflexivity. Qed.
Lemma nog_render_stmts ss : nog (flat_map (render_stmt mp) ss).
Proof.
  induction ss as [|s r IH]; [reflexivity|]. cbn [flat_map]. apply nog_app. split; [|exact IH].
  destruct s; try reflexivity; cbn [render_stmt]; apply nog_app; (split; [apply nog_marker|reflexivity]).
Qed.
Lemma nog_leaf_cmp l d : nog (render_leaf_cmp name l d).
Proof. unfold render_leaf_cmp. destruct (lk l); try reflexivity. destruct (flag_truthy l); reflexivity. Qed.
Lemma nog_cases (cases : list (text * Z * Z)) : nog (flat_map (fun '(v, vl, d) => marker mp vl ++ [ICase v (lbl name d)]) cases).
Proof.
  induction cases as [|[[v vl] d] r IH]; [reflexivity|]. cbn [flat_map]. apply nog_app. split; [|exact IH].
  apply nog_app. split; [apply nog_marker|reflexivity].
Qed.

Lemma ess_marker line : filter essential (marker mp line) = marker mp line.
Proof. unfold marker. destruct mp; reflexivity. Qed.

Lemma ess_gof d nx m1 :
  filter essential (fst (fst (goto_or_fall name d nx m1))) = if m1 && (d =? -1)%Z then [IReturn] else [].
Proof. unfold goto_or_fall. destruct (m1 && _); [reflexivity|]. destruct (d =? nx)%Z; reflexivity. Qed.

(* what the branch part of a chunk contributes, layout aside, does not depend on the chunk rendered next *)
Lemma ess_branch c nx nx' : (nx <> (-1)%Z \/ ~ corner c) -> (nx' <> (-1)%Z \/ ~ corner c) ->
  filter essential (fst (fst (render_branch mp name c nx))) = filter essential (fst (fst (render_branch mp name c nx'))).
Proof.
  intros H H'. unfold render_branch. destruct (cbr c) as [[d|d|l tr fa|op ol cases def dest]|] eqn:B.
  - now rewrite !ess_gof.
  - now rewrite !ess_gof.
  - pose proof (ess_gof fa nx true) as E1. pose proof (ess_gof fa nx' true) as E2.
    destruct (goto_or_fall name fa nx true) as [[x1 r1] f1]. destruct (goto_or_fall name fa nx' true) as [[x2 r2] f2].
    cbn [fst] in *. rewrite !filter_app, E1, E2. reflexivity.
  - destruct def as [dd|].
    + destruct (dd =? nx)%Z; destruct (dd =? nx')%Z; cbn [fst]; rewrite !filter_app; cbn [filter essential]; rewrite ?app_nil_r; reflexivity.
    + assert (NC : forall n, (n <> (-1)%Z \/ ~ corner c) -> dest = n -> dest = (-1)%Z -> False).
      { intros n [Hn|Hn] E E1; [lia|]. apply Hn. exists op, ol, cases. rewrite B, E1. reflexivity. }
      destruct (Z.eqb_spec dest nx) as [E|E]; destruct (Z.eqb_spec dest nx') as [E'|E']; destruct (Z.eqb_spec dest (-1)) as [E1|E1]; cbn [fst];
        try (exfalso; first [exact (NC nx H E E1) | exact (NC nx' H' E' E1)]);
        rewrite ?filter_app; cbn [filter essential app]; rewrite ?app_nil_r, <- ?app_assoc; cbn [app]; rewrite ?app_nil_r; reflexivity.
  - destruct (cret c =? -1)%Z; [reflexivity|]. destruct (cret c =? nx)%Z; destruct (cret c =? nx')%Z; reflexivity.
Qed.

Lemma ess_body c nx nx' : (nx <> (-1)%Z \/ ~ corner c) -> (nx' <> (-1)%Z \/ ~ corner c) ->
  filter essential (RenderSim.body_of mp name c nx) = filter essential (RenderSim.body_of mp name c nx').
Proof.
  intros H H'. unfold RenderSim.body_of. pose proof (ess_branch c nx nx' H H') as E.
  destruct (render_branch mp name c nx) as [[b1 r1] f1]. destruct (render_branch mp name c nx') as [[b2 r2] f2]. cbn [fst] in E.
  rewrite !filter_app, E. f_equal. f_equal. destruct f1, f2; reflexivity.
Qed.

(* the canonical layout-free content of a chunk *)
Definition ess (c : chunk) : list instr := filter essential (RenderSim.body_of mp name c (-2)).

Lemma labels_body_of c nx : labels_of (RenderSim.body_of mp name c nx) = user_labels (cstmts c).
Proof.
  unfold RenderSim.body_of. pose proof (labels_render_branch mp name c nx) as HB.
  destruct (render_branch mp name c nx) as [[b rg] fall]. cbn [fst] in HB.
  rewrite !labels_of_app, labels_render_stmts, HB. destruct fall; cbn; now rewrite app_nil_r.
Qed.

Variable glob : bool.
Variable G : list chunk.
Variable regs : list Z.
Notation blocks := (blocks mp name glob G regs).
Notation block_of := (block_of mp name glob G regs).
Notation labelpart := (labelpart name glob regs).

Lemma blocks_cons i r nx : blocks (i :: r) nx = block_of i (hd nx r) ++ blocks r nx.
Proof. reflexivity. Qed.

Lemma ess_labelpart i : filter essential (labelpart i) = [].
Proof. unfold RenderSim.labelpart. destruct (i =? 0)%Z; [reflexivity|]. destruct (zmem i regs); reflexivity. Qed.

Lemma ess_blocks l : forall nx, (forall i, In i l -> i <> (-1)%Z) ->
  (forall pre d c, l = pre ++ [d] -> get_chunk G d = Some c -> nx <> (-1)%Z \/ ~ corner c) ->
  filter essential (blocks l nx) = flat_map ess (rchunks G l).
Proof.
  induction l as [|i r IH]; intros nx NM LAST; [reflexivity|]. rewrite blocks_cons, rchunks_cons, filter_app, flat_map_app.
  f_equal.
  - unfold RenderSim.block_of. destruct (get_chunk G i) as [c|] eqn:E; [|reflexivity]. cbn [flat_map]. rewrite app_nil_r.
    rewrite filter_app, ess_labelpart. cbn [app]. unfold ess. apply ess_body; [|left; lia].
    destruct r as [|j r']; cbn [hd].
    + apply (LAST [] i c eq_refl E).
    + left. apply NM. right. left. reflexivity.
  - apply IH.
    + intros j Hj. apply NM. now right.
    + intros pre d c E. apply (LAST (i :: pre) d c). cbn [app]. now rewrite E.
Qed.

Definition hl (i : Z) : list (text * bool) := labels_of (labelpart i).

Lemma labels_blocks l : forall nx,
  labels_of (blocks l nx) = flat_map (fun c => hl (cid c) ++ user_labels (cstmts c)) (rchunks G l).
Proof.
  induction l as [|i r IH]; intros nx; [reflexivity|]. rewrite blocks_cons, rchunks_cons, labels_of_app, flat_map_app, IH. f_equal.
  unfold RenderSim.block_of. destruct (get_chunk G i) as [c|] eqn:E; [|reflexivity]. cbn [flat_map]. rewrite app_nil_r.
  rewrite labels_of_app, labels_body_of, (get_chunk_cid' _ _ _ E). reflexivity.
Qed.

Definition sub (i : Z) : text * bool := (lbl name i, false).
Definition isgen (i : Z) : bool := negb (i =? 0)%Z && zmem i regs.

Lemma hl_nozero l : ~ In 0%Z l -> flat_map hl l = map sub (filter isgen l).
Proof.
  induction l as [|i r IH]; intros H; [reflexivity|]. cbn [flat_map filter]. rewrite IH by (intros X; apply H; now right).
  unfold hl, RenderSim.labelpart, isgen. destruct (Z.eqb_spec i 0) as [->|N]; [exfalso; apply H; now left|].
  cbn [negb andb]. destruct (zmem i regs); reflexivity.
Qed.

Lemma hl_order order : NoDup order -> In 0%Z order ->
  Permutation (flat_map hl order) ((name, glob) :: map sub (filter isgen order)).
Proof.
  intros ND I0. destruct (in_split _ _ I0) as (l1 & l2 & ->).
  assert (N1 : ~ In 0%Z l1) by (apply (nodup_notin _ _ _ ND)).
  assert (N2 : ~ In 0%Z l2). { apply NoDup_remove_2 in ND. intros X. apply ND. apply in_or_app. now right. }
  rewrite flat_map_app. cbn [flat_map]. rewrite filter_app. cbn [filter]. unfold isgen at 2. cbn [Z.eqb negb andb].
  rewrite map_app, !hl_nozero by assumption. unfold hl at 1, RenderSim.labelpart. cbn [Z.eqb labels_of flat_map app].
  symmetry. apply Permutation_middle.
Qed.

(* where an instruction of the code sits: in the block of one chunk of the order *)
Lemma blocks_split l : forall nx pre x post, blocks l nx = pre ++ x :: post ->
  exists l1 d l2 bpre bpost, l = l1 ++ d :: l2 /\ block_of d (hd nx l2) = bpre ++ x :: bpost /\
                             pre = blocks l1 d ++ bpre /\ post = bpost ++ blocks l2 nx.
Proof.
  induction l as [|i r IH]; intros nx pre x post E; [destruct pre; discriminate|]. rewrite blocks_cons in E.
  destruct (app_split_mid _ _ _ _ _ E) as [(m & E1 & ->)|(m & -> & E2)].
  - exists [], i, r, pre, m. split; [reflexivity|]. split; [exact E1|]. split; reflexivity.
  - destruct (IH _ _ _ _ E2) as (l1 & d & l2 & bpre & bpost & -> & B & -> & ->).
    exists (i :: l1), d, l2, bpre, bpost. split; [reflexivity|]. split; [exact B|]. split; [|reflexivity].
    cbn [app]. rewrite blocks_cons, <- app_assoc. f_equal. f_equal. destruct l1; reflexivity.
Qed.
End BLK.

(* ================================================================================================================== *)
(* the label statements of a script body, at every depth, with their scope                                            *)
(* ================================================================================================================== *)
Fixpoint slab1 (s : stmt) : list (text * bool) :=
  let dl := fix dl (ss : list stmt) : list (text * bool) := match ss with [] => [] | x :: r => slab1 x ++ dl r end in
  match s with
  | SLabel n g _ => [(n, g)]
  | SIf conds els =>
      (fix go (cs : list (bexp * list stmt)) : list (text * bool) := match cs with [] => [] | (_, b) :: r => dl b ++ go r end) conds ++
      match els with Some b => dl b | None => [] end
  | SWhile _ _ b => dl b
  | SDoWhile _ b _ => dl b
  | SSwitch _ _ _ cases =>
      (fix go (cs : list scase) : list (text * bool) := match cs with [] => [] | c :: r => dl (sc_body c) ++ go r end) cases
  | _ => []
  end.
Fixpoint slabs (ss : list stmt) : list (text * bool) := match ss with [] => [] | x :: r => slab1 x ++ slabs r end.
Definition slabs_local := fix dl (ss : list stmt) : list (text * bool) := match ss with [] => [] | x :: r => slab1 x ++ dl r end.
Lemma slabs_local_eq ss : slabs_local ss = slabs ss.
Proof. induction ss as [|x r IH]; [reflexivity|]. cbn. now rewrite IH. Qed.

Lemma slab1_if conds els :
  slab1 (SIf conds els) = List.concat (map (fun cb : bexp * list stmt => slabs (snd cb)) conds) ++ match els with Some b => slabs b | None => [] end.
Proof.
  change (slab1 (SIf conds els)) with
    ((fix go (cs : list (bexp * list stmt)) : list (text * bool) := match cs with [] => [] | (_, b) :: r => slabs_local b ++ go r end) conds ++
     match els with Some b => slabs_local b | None => [] end).
  f_equal.
  - induction conds as [|[e b] r IH]; [reflexivity|]. cbn. rewrite IH, slabs_local_eq. reflexivity.
Qed.
Lemma slab1_while tg c b : slab1 (SWhile tg c b) = slabs b.
Proof. change (slab1 (SWhile tg c b)) with (slabs_local b). apply slabs_local_eq. Qed.
Lemma slab1_dowhile tg b c : slab1 (SDoWhile tg b c) = slabs b.
Proof. change (slab1 (SDoWhile tg b c)) with (slabs_local b). apply slabs_local_eq. Qed.
Lemma slab1_switch tg o ol cases : slab1 (SSwitch tg o ol cases) = List.concat (map (fun c : scase => slabs (sc_body c)) cases).
Proof.
  change (slab1 (SSwitch tg o ol cases)) with
    ((fix go (cs : list scase) : list (text * bool) := match cs with [] => [] | c :: r => slabs_local (sc_body c) ++ go r end) cases).
  induction cases as [|c r IH]; [reflexivity|]. cbn. rewrite IH, slabs_local_eq. reflexivity.
Qed.
Lemma slabs_app a b : slabs (a ++ b) = slabs a ++ slabs b.
Proof. induction a as [|x r IH]; [reflexivity|]. cbn. now rewrite IH, app_assoc. Qed.
Lemma slabs_ctl s : is_simple s = false -> slabs [s] = Msub (text * bool) slabs s.
Proof.
  intros NS. cbn [slabs]. rewrite app_nil_r. unfold Msub.
  destruct s as [c|nm g tk|conds els|tag c body|tag body c|tag|tag|tag op ol cases]; try discriminate NS; cbn [subblocks]; try reflexivity.
  - rewrite slab1_if, map_app, List.concat_app, map_map. f_equal. destruct els; cbn; [now rewrite app_nil_r|reflexivity].
  - rewrite slab1_while. cbn. now rewrite app_nil_r.
  - rewrite slab1_dowhile. cbn. now rewrite app_nil_r.
  - rewrite slab1_switch, map_map. reflexivity.
Qed.
Lemma slabs_simple ss : Forall simple ss -> slabs ss = user_labels ss.
Proof.
  induction 1 as [|x r H _ IH]; [reflexivity|]. cbn [slabs user_labels flat_map]. fold (user_labels r). rewrite IH. f_equal.
  destruct x; try discriminate H; reflexivity.
Qed.

(* their names are WorkLabels.dlabs, the list whose duplicate-freeness is the label premise of C01 *)
Lemma slabs_names : forall ss, map fst (slabs ss) = dlabs ss.
Proof.
  apply (stmts_ind2 (fun s => map fst (slab1 s) = dlab1 s) (fun ss => map fst (slabs ss) = dlabs ss)).
  - reflexivity.
  - intros s r Hs Hr. cbn [slabs dlabs]. now rewrite map_app, Hs, Hr.
  - reflexivity.
  - reflexivity.
  - intros conds els FC FE. rewrite slab1_if, dlab1_if, map_app. f_equal.
    + rewrite concat_map_map. f_equal. induction FC as [|cb r H _ IH]; [reflexivity|]. cbn [map]. now rewrite H, IH.
    + destruct els as [b|]; [exact FE|reflexivity].
  - intros tg c b Hb. now rewrite slab1_while, dlab1_while.
  - intros tg b c Hb. now rewrite slab1_dowhile, dlab1_dowhile.
  - reflexivity.
  - reflexivity.
  - intros tg o ol cases FC. rewrite slab1_switch, dlab1_switch, concat_map_map. f_equal.
    induction FC as [|c r H _ IH]; [reflexivity|]. cbn [map]. now rewrite H, IH.
Qed.

Definition graph_ulabels (G : list chunk) : list (text * bool) := flat_map (fun c => user_labels (cstmts c)) G.

Lemma Mrem_slabs fs : Forall (fun c => Forall simple (cstmts c)) fs -> Mrem (text * bool) slabs fs = graph_ulabels fs.
Proof.
  induction 1 as [|c r H _ IH]; [reflexivity|]. rewrite Mrem_cons, IH, (slabs_simple _ H). reflexivity.
Qed.

Local Opaque work_fuel work.
(* the worklist conserves the label statements with their scopes *)
Theorem graph_scoped_labels_are_source_labels body w :
  emit_graph body = Ok w -> src_ok body ->
  Permutation (graph_ulabels (finals w)) (slabs body) /\ Forall (fun c => Forall simple (cstmts c)) (finals w).
Proof.
  intros H S. unfold emit_graph in H.
  destruct (work_conserves (text * bool) slabs eq_refl slabs_app (fun _ => eq_refl) slabs_ctl _ _ _ (emit_graph_inv0 body S) (Forall_nil _) H) as [P SF].
  split; [|exact SF].
  rewrite (Mrem_slabs _ SF) in P. etransitivity; [exact P|]. unfold MW, Mrem. cbn. rewrite !app_nil_r. reflexivity.
Qed.
Local Transparent work_fuel work.

(* ================================================================================================================== *)
(* one script: the chunk graph of its body and the two orders                                                         *)
(* ================================================================================================================== *)
Section SCRIPT.
Variable mp : option text.
Variable tl : list text.
Variable name : text.
Variable glob : bool.
Variable body : list stmt.
Variable w : wst.
Hypothesis HW : emit_graph body = Ok w.
Hypothesis HS : src_ok body.
Let G := finals w.

Lemma G_dense : OrderPerm.dense G.
Proof. destruct (final_graph_shape body w HW HS) as (DN & _). exact DN. Qed.
Lemma G_nonempty : G <> [].
Proof. destruct (final_graph_shape body w HW HS) as (_ & NE & _). exact NE. Qed.
Lemma G_nodup : NoDup (map cid G).
Proof. exact (proj1 G_dense). Qed.
Lemma G_range c : In c G -> (0 <= cid c < Z.of_nat (List.length G))%Z.
Proof. intros H. pose proof (proj2 G_dense) as F. rewrite Forall_forall in F. exact (F c H). Qed.
Lemma G_order_perm opt : Permutation (order_of opt G) (map cid G).
Proof. exact (OrderPerm.order_of_perm_all opt G G_dense). Qed.
Lemma G_order_nodup opt : NoDup (order_of opt G).
Proof. apply (Permutation_NoDup (Permutation_sym (G_order_perm opt))). exact G_nodup. Qed.
Lemma G_order_chunk opt i : In i (order_of opt G) ->
  exists c, get_chunk G i = Some c /\ In c G /\ cid c = i /\ (0 <= i < Z.of_nat (List.length G))%Z.
Proof.
  intros H. apply (Permutation_in _ (G_order_perm opt)) in H. apply in_map_iff in H. destruct H as (c & <- & Hc).
  exists c. split; [apply (get_chunk_nodup G G_nodup c Hc)|]. split; [exact Hc|]. split; [reflexivity|apply G_range; exact Hc].
Qed.
Lemma G_id_chunk i : In i (map cid G) -> exists c, get_chunk G i = Some c /\ In c G /\ cid c = i.
Proof.
  intros H. apply in_map_iff in H. destruct H as (c & <- & Hc). exists c. split; [apply (get_chunk_nodup G G_nodup c Hc)|]. auto.
Qed.
Lemma G_order_zero opt : In 0%Z (order_of opt G).
Proof.
  apply (Permutation_in _ (Permutation_sym (G_order_perm opt))). apply (OrderPerm.ids_full G G_dense).
  pose proof G_nonempty as NE. destruct G; [congruence|]. cbn [List.length]. lia.
Qed.
Lemma G_rendered_perm opt : Permutation (rchunks G (order_of opt G)) G.
Proof. apply rchunks_perm; [exact G_nodup|apply G_order_perm]. Qed.
Lemma G_rendered_ids opt : map cid (rchunks G (order_of opt G)) = order_of opt G.
Proof. apply rchunks_cids. intros i Hi. destruct (G_order_chunk opt i Hi) as (c & E & _). eauto. Qed.

(* the chunk rendered last never falls off the end (it ends in end / return / goto) *)
Lemma last_no_fall opt pre d c :
  order_of opt G = pre ++ [d] -> get_chunk G d = Some c -> snd (render_branch mp name c (-1)) = false.
Proof.
  intros ORD GC. destruct (final_graph_shape body w HW HS) as (DN & NE & ST & TG & TB & N3). fold G in DN, NE, ST, TG, TB, N3.
  destruct (snd (render_branch mp name c (-1))) eqn:FALL; [exfalso|reflexivity].
  pose proof (EmitProps.get_chunk_in _ _ _ GC) as Hc. pose proof (get_chunk_cid' _ _ _ GC) as CID.
  destruct (RenderFromSource.last_falls mp name c FALL) as [(x & B & ->)|[(op & ol & cases & dd & dest & B & ->)|(op & ol & cases & B)]].
  - destruct (ST c Hc (-1)%Z) as [Q _]; [unfold stargets; rewrite B; left; reflexivity|lia].
  - destruct (ST c Hc (-1)%Z) as [Q _]; [unfold stargets; rewrite B; apply in_or_app; right; left; reflexivity|lia].
  - destruct cases as [|x0 xs].
    + rewrite Forall_forall in N3. specialize (N3 c Hc). unfold nonempty_switch in N3. rewrite B in N3. exact N3.
    + assert (TS : is_table c) by (unfold is_table; rewrite B; exact Logic.I).
      destruct (TB c Hc TS) as (Z0 & NXT & NOTAIL). rewrite CID in *.
      assert (INO : In (d + 1)%Z (order_of opt G)) by (eapply Permutation_in; [symmetry; apply G_order_perm|exact NXT]).
      rewrite ORD in INO. apply in_app_or in INO. destruct INO as [INO|[E|[]]]; [|lia].
      destruct (in_split _ _ INO) as (p1 & p2 & SP).
      destruct opt.
      * assert (OS : order_of true G = p1 ++ (d + 1)%Z :: (p2 ++ [d])) by (rewrite ORD, SP, <- app_assoc; reflexivity).
        destruct (opt_order_step G G_dense NE _ _ _ OS) as [(_ & E)|[(p' & p & cp & _ & GP & TP)|ALL]].
        -- lia.
        -- apply (NOTAIL cp); [eapply EmitProps.get_chunk_in; exact GP|exact TP].
        -- assert (IN1 : In d p1) by (apply ALL; lia).
           pose proof (G_order_nodup true) as ND. rewrite ORD, SP, <- app_assoc in ND.
           apply (nodup_app_disj _ _ d ND IN1). right. apply in_or_app. right. left. reflexivity.
      * destruct (plain_order_last G NE) as (pre' & PL). rewrite ORD in PL. apply app_inj_tail in PL. destruct PL as [_ PL].
        unfold ids in NXT. apply in_map_iff in NXT. destruct NXT as (x & EX & HX). pose proof (G_range x HX). lia.
Qed.

Lemma corner_falls c : corner c -> snd (render_branch mp name c (-1)) = true.
Proof. intros (op & ol & cases & B). unfold render_branch. rewrite B. reflexivity. Qed.

(* the code of the script, as blocks *)
Lemma script_code opt code :
  emit_script mp tl name glob opt body = Ok code ->
  render_chunks mp tl name glob G (order_of opt G) = Ok code /\
  code = blocks mp name glob G (all_regs mp name G (order_of opt G) (-1)) (order_of opt G) (-1) /\
  targets_of code = map (lbl name) (all_regs mp name G (order_of opt G) (-1)).
Proof.
  rewrite emit_script_eq, HW. fold G. intros H. split; [exact H|]. split; [apply (render_chunks_blocks _ _ _ _ _ _ _ H)|].
  destruct (render_chunks_targets _ _ _ _ _ _ _ H) as (bodies & regs & E & T).
  destruct (render_bodies_blocks _ _ _ _ _ _ _ _ E) as [-> _]. exact T.
Qed.

(* ---------- (b2) the labels a script defines ---------- *)
Theorem script_labels opt code :
  emit_script mp tl name glob opt body = Ok code ->
  exists gen : list Z,
    Permutation (labels_of code) ((name, glob) :: slabs body ++ map (fun i => (lbl name i, false)) gen) /\
    NoDup gen /\
    forall i, In i gen -> (0 < i < Z.of_nat (List.length G))%Z /\ In (lbl name i) (targets_of code).
Proof.
  intros H. destruct (script_code opt code H) as (_ & C & T). set (regs := all_regs mp name G (order_of opt G) (-1)) in *.
  exists (filter (isgen regs) (order_of opt G)). split; [|split].
  - rewrite C, labels_blocks.
    etransitivity; [apply perm_flat_map_app|].
    rewrite (flat_map_on_map cid (hl name glob regs)), G_rendered_ids.
    etransitivity; [apply Permutation_app; [apply hl_order; [apply G_order_nodup|apply G_order_zero]|apply Permutation_flat_map; apply G_rendered_perm]|].
    cbn [app]. constructor. etransitivity; [apply Permutation_app_comm|]. apply Permutation_app_tail.
    exact (proj1 (graph_scoped_labels_are_source_labels body w HW HS)).
  - apply NoDup_filter. apply G_order_nodup.
  - intros i Hi. apply filter_In in Hi. destruct Hi as [Hi Q]. unfold isgen in Q. apply andb_prop in Q. destruct Q as [Q1 Q2].
    destruct (G_order_chunk opt i Hi) as (c & _ & _ & _ & R). apply negb_true_iff in Q1. apply Z.eqb_neq in Q1.
    split; [lia|]. rewrite T. apply in_map. apply zmem_in. exact Q2.
Qed.

(* ---------- (b3) the code of a script, layout aside ---------- *)
Lemma script_essential opt code :
  emit_script mp tl name glob opt body = Ok code -> Permutation (filter essential code) (flat_map (ess mp name) G).
Proof.
  intros H. destruct (script_code opt code H) as (_ & C & _). rewrite C.
  rewrite ess_blocks.
  - apply Permutation_flat_map. apply G_rendered_perm.
  - intros i Hi. destruct (G_order_chunk opt i Hi) as (_ & _ & _ & _ & R). lia.
  - intros pre d c E GC. right. intros K. apply corner_falls in K. rewrite (last_no_fall opt pre d c E GC) in K. discriminate.
Qed.
End SCRIPT.

(* THEOREM (b2): in either setting the label definitions of the emitted script are: the script label with the script's scope,
   the label statements of the body (at any depth, with the scope the author gave, each as often as written), and generated
   local sub-labels name_i for pairwise distinct chunk numbers i, each of which is the target of a generated jump *)
Theorem script_labels_both mp tl name glob body w code0 code1 :
  emit_graph body = Ok w -> src_ok body ->
  emit_script mp tl name glob false body = Ok code0 -> emit_script mp tl name glob true body = Ok code1 ->
  exists gen0 gen1 : list Z,
    Permutation (labels_of code0) ((name, glob) :: slabs body ++ map (fun i => (lbl name i, false)) gen0) /\
    Permutation (labels_of code1) ((name, glob) :: slabs body ++ map (fun i => (lbl name i, false)) gen1) /\
    NoDup gen0 /\ NoDup gen1 /\
    (forall i, In i gen0 -> (0 < i < Z.of_nat (List.length (finals w)))%Z /\ In (lbl name i) (targets_of code0)) /\
    (forall i, In i gen1 -> (0 < i < Z.of_nat (List.length (finals w)))%Z /\ In (lbl name i) (targets_of code1)).
Proof.
  intros HW HS H0 H1.
  destruct (script_labels mp tl name glob body w HW HS false code0 H0) as (g0 & P0 & N0 & R0).
  destruct (script_labels mp tl name glob body w HW HS true code1 H1) as (g1 & P1 & N1 & R1).
  exists g0, g1. tauto.
Qed.

(* THEOREM (b3): goto lines, blank lines and label lines aside, the two renderings of a script consist of the same
   instructions, each the same number of times: commands, conditional jumps, compare / switch / case lines, return / end,
   line markers *)
Theorem script_code_same_multiset mp tl name glob body w code0 code1 :
  emit_graph body = Ok w -> src_ok body ->
  emit_script mp tl name glob false body = Ok code0 -> emit_script mp tl name glob true body = Ok code1 ->
  Permutation (filter essential code0) (filter essential code1).
Proof.
  intros HW HS H0 H1. etransitivity; [apply (script_essential mp tl name glob body w HW HS false code0 H0)|].
  symmetry. apply (script_essential mp tl name glob body w HW HS true code1 H1).
Qed.

Theorem script_commands_same_multiset mp tl name glob body w code0 code1 :
  emit_graph body = Ok w -> src_ok body ->
  emit_script mp tl name glob false body = Ok code0 -> emit_script mp tl name glob true body = Ok code1 ->
  Permutation (filter is_cmd code0) (filter is_cmd code1).
Proof.
  intros HW HS H0 H1. pose proof (script_code_same_multiset mp tl name glob body w code0 code1 HW HS H0 H1) as P.
  apply (Permutation_filter' is_cmd) in P. rewrite !filter_filter_impl in P; [exact P| |]; intros [] E; try discriminate E; reflexivity.
Qed.

(* ================================================================================================================== *)
(* (c2) where the generated gotos point                                                                                *)
(* ================================================================================================================== *)
(* the optimized order: an element that is not the fall-through successor of its predecessor follows a chunk whose
   successor is the end of the script, already placed, or not a chunk *)
Section OPTQ.
Variable G : list chunk.
Definition stepQ (l : list Z) : Prop :=
  forall pre p d post c, l = pre ++ p :: d :: post -> get_chunk G p = Some c ->
    tail_of c = d \/ tail_of c = (-1)%Z \/ In (tail_of c) (pre ++ [p]) \/ get_chunk G (tail_of c) = None.

Lemma stepQ_short l : (List.length l <= 1)%nat -> stepQ l.
Proof. intros L pre p d post c E _. apply (f_equal (@List.length Z)) in E. rewrite app_length in E. cbn in E. lia. Qed.

Lemma stepQ_snoc l x : stepQ l ->
  (forall l' p c, l = l' ++ [p] -> get_chunk G p = Some c ->
     tail_of c = x \/ tail_of c = (-1)%Z \/ In (tail_of c) l \/ get_chunk G (tail_of c) = None) ->
  stepQ (l ++ [x]).
Proof.
  intros H Hx pre p d post c E GC.
  destruct (last_case _ post) as [->|(post' & y & ->)].
  - change (pre ++ [p; d]) with (pre ++ [p] ++ [d]) in E. rewrite app_assoc in E. apply app_inj_tail in E. destruct E as [-> ->].
    exact (Hx pre p c eq_refl GC).
  - change (pre ++ p :: d :: post' ++ [y]) with (pre ++ (p :: d :: post') ++ [y]) in E. rewrite app_assoc in E.
    apply app_inj_tail in E. destruct E as [E _]. exact (H pre p d post' c E GC).
Qed.

Lemma opt_order_stepQ n : forall fuel acc, stepQ (rev acc) -> stepQ (opt_order fuel G n acc).
Proof.
  induction fuel as [|f IH]; intros acc HQ; [exact HQ|]. rewrite opt_order_S.
  destruct (Nat.leb n (List.length acc)); [exact HQ|].
  destruct acc as [|last tl0].
  - apply IH. apply stepQ_short. cbn. lia.
  - cbv zeta.
    set (nxt := match get_chunk G last with Some c => tail_of c | None => (-1)%Z end).
    destruct (negb (nxt =? -1)%Z && (negb (zmem nxt (last :: tl0)) && match get_chunk G nxt with Some _ => true | None => false end)) eqn:C.
    + apply IH. cbn [rev]. apply stepQ_snoc; [exact HQ|]. intros l' p c E GC. cbn [rev] in E. apply app_inj_tail in E. destruct E as [_ <-].
      left. subst nxt. rewrite GC. reflexivity.
    + destruct (first_unvisited (S n) 1 (Z.of_nat n) (last :: tl0)) as [i|]; [|exact HQ].
      apply IH. change (rev (i :: last :: tl0)) with (rev (last :: tl0) ++ [i]). apply stepQ_snoc; [exact HQ|].
      intros l' p c E GC. cbn [rev] in E. apply app_inj_tail in E. destruct E as [_ <-].
      subst nxt. rewrite GC in C. right.
      destruct (Z.eqb_spec (tail_of c) (-1)) as [E1|E1]; [left; exact E1|]. cbn [negb andb] in C.
      destruct (zmem (tail_of c) (last :: tl0)) eqn:ZM.
      * right. left. apply zmem_in in ZM. apply in_rev in ZM. exact ZM.
      * cbn [negb andb] in C. destruct (get_chunk G (tail_of c)); [discriminate|]. right. right. reflexivity.
Qed.

Lemma opt_order_Q : stepQ (order_of true G).
Proof. unfold order_of. apply opt_order_stepQ. apply stepQ_short. cbn. lia. Qed.
End OPTQ.

Definition skip (i : instr) : Prop := i = IBlank \/ exists n, i = IMarker n.

Lemma first_nonskip (a : list instr) : forall mid x y r post,
  Forall skip a -> Forall skip mid -> ~ skip x -> ~ skip y -> a ++ x :: r = mid ++ y :: post -> a = mid /\ x = y /\ r = post.
Proof.
  induction a as [|a0 a IH]; intros mid x y r post Fa Fm Nx Ny E.
  - destruct mid as [|m0 mid]; cbn [app] in E.
    + inversion E; subst. auto.
    + inversion E; subst. inversion Fm; subst. contradiction.
  - destruct mid as [|m0 mid]; cbn [app] in E.
    + inversion E; subst. inversion Fa; subst. contradiction.
    + inversion E as [[E0 E1]]. subst m0. inversion Fa; subst. inversion Fm; subst.
      destruct (IH _ _ _ _ _ H2 H4 Nx Ny E1) as (-> & -> & ->). auto.
Qed.

Lemma skip_marker mp line : Forall skip (marker mp line).
Proof. unfold marker. destruct mp; [constructor; [right; eauto|constructor]|constructor]. Qed.

Lemma decZ_m1_ne z : (0 <= z)%Z -> decZ (-1) <> decZ z.
Proof.
  intros Hz E. rewrite (decZ_nonneg z Hz), <- nat_text_dec in E.
  pose proof (nat_text_digits (Z.to_nat z)) as D. rewrite <- E in D.
  change (decZ (-1)) with [45%N; 49%N] in D. inversion D as [|? ? D1 _]; subst. unfold is_digit in D1. lia.
Qed.
Lemma lbl_m1_ne name z : (0 <= z)%Z -> lbl name (-1) <> lbl name z.
Proof. intros Hz E. unfold lbl in E. apply app_inv_head in E. apply app_inv_head in E. exact (decZ_m1_ne z Hz E). Qed.

Section GOTOSHAPE.
Variable mp : option text.
Variable name : text.

Lemma nog_no_goto P bpre l bpost : nog P -> P = bpre ++ IGoto l :: bpost -> False.
Proof. intros N E. rewrite E in N. apply nog_app in N. destruct N as [_ N]. discriminate N. Qed.

Lemma goto_tail P L : nog P -> forall bpre l bpost,
  P ++ [IGoto L; IBlank] = bpre ++ IGoto l :: bpost -> l = L /\ bpost = [IBlank] /\ bpre = P.
Proof.
  induction P as [|p P IH]; intros N bpre l bpost E.
  - destruct bpre as [|y bpre]; cbn [app] in E; [inversion E; auto|].
    inversion E as [[E0 E1]]. destruct bpre as [|z bpre]; cbn [app] in E1; [discriminate|]. inversion E1 as [[E2 E3]]. destruct bpre; discriminate.
  - assert (N' : nog P) by (change (p :: P) with ([p] ++ P) in N; apply nog_app in N; tauto).
    destruct bpre as [|y bpre]; cbn [app] in E.
    + inversion E; subst. discriminate N.
    + inversion E as [[E0 E1]]. destruct (IH N' _ _ _ E1) as (-> & -> & ->). auto.
Qed.

(* the branch part of a chunk contains at most one goto line: the last one, to the fall-through successor, which is then
   not the chunk rendered next *)
Lemma branch_goto_shape c nx b rg fall : render_branch mp name c nx = (b, rg, fall) ->
  (exists b', b = b' ++ [IGoto (lbl name (tail_of c))] /\ nog b' /\ fall = false /\ tail_of c <> nx /\
              (In (tail_of c) (stargets c) \/ tail_of c <> (-1)%Z)) \/ nog b.
Proof.
  unfold render_branch, tail_of, stargets. destruct (cbr c) as [[d|d|l tr fa|op ol cases def dest]|].
  - unfold goto_or_fall. cbn [andb]. destruct (Z.eqb_spec d nx) as [E|E]; intros H; inversion H; subst; [right; reflexivity|].
    left. exists []. split; [reflexivity|]. split; [reflexivity|]. split; [reflexivity|]. split; [exact E|left; left; reflexivity].
  - unfold goto_or_fall. cbn [andb]. destruct (Z.eqb_spec d (-1)) as [E1|E1]; [intros H; inversion H; subst; right; reflexivity|].
    destruct (Z.eqb_spec d nx) as [E|E]; intros H; inversion H; subst; [right; reflexivity|].
    left. exists []. split; [reflexivity|]. split; [reflexivity|]. split; [reflexivity|]. split; [exact E|right; exact E1].
  - unfold goto_or_fall. cbn [andb].
    assert (NP : nog ((match lpre l with Some p => [ICmd p] | None => [] end) ++ marker mp (lline l) ++ render_leaf_cmp name l tr)).
    { apply nog_app. split; [destruct (lpre l); reflexivity|]. apply nog_app. split; [apply nog_marker|apply nog_leaf_cmp]. }
    destruct (Z.eqb_spec fa (-1)) as [E1|E1].
    { intros H; inversion H; subst. right. rewrite !app_assoc. apply nog_app. split; [rewrite <- !app_assoc; exact NP|reflexivity]. }
    destruct (Z.eqb_spec fa nx) as [E|E]; intros H; inversion H; subst.
    + right. rewrite !app_assoc. apply nog_app. split; [rewrite <- !app_assoc; exact NP|reflexivity].
    + left. eexists. split; [rewrite !app_assoc; reflexivity|]. split; [rewrite <- !app_assoc; exact NP|].
      split; [reflexivity|]. split; [exact E|right; exact E1].
  - assert (NP : nog ((marker mp ol ++ [ISwitch op]) ++ flat_map (fun '(v, vl, d) => marker mp vl ++ [ICase v (lbl name d)]) cases)).
    { apply nog_app. split; [apply nog_app; split; [apply nog_marker|reflexivity]|apply nog_cases]. }
    destruct def as [dd|].
    + destruct (Z.eqb_spec dd nx) as [E|E]; intros H; inversion H; subst; [right; exact NP|].
      left. eexists. split; [rewrite app_assoc; reflexivity|]. split; [exact NP|]. split; [reflexivity|]. split; [exact E|].
      left. apply in_or_app. right. left. reflexivity.
    + destruct (Z.eqb_spec dest nx) as [E|E]; [intros H; inversion H; subst; right; exact NP|].
      destruct (Z.eqb_spec dest (-1)) as [E1|E1]; intros H; inversion H; subst.
      * right. rewrite app_assoc. apply nog_app. split; [exact NP|reflexivity].
      * left. eexists. split; [rewrite app_assoc; reflexivity|]. split; [exact NP|]. split; [reflexivity|]. split; [exact E|right; exact E1].
  - destruct (Z.eqb_spec (cret c) (-1)) as [E1|E1]; [intros H; inversion H; subst; right; destruct (cend c); reflexivity|].
    destruct (Z.eqb_spec (cret c) nx) as [E|E]; intros H; inversion H; subst; [right; reflexivity|].
    left. exists []. split; [reflexivity|]. split; [reflexivity|]. split; [reflexivity|]. split; [exact E|right; exact E1].
Qed.

Variable glob : bool.
Variable G : list chunk.
Variable regs : list Z.
Notation blocks := (blocks mp name glob G regs).
Notation block_of := (block_of mp name glob G regs).
Notation labelpart := (labelpart name glob regs).

Lemma nog_labelpart i : nog (labelpart i).
Proof. unfold RenderSim.labelpart. destruct (i =? 0)%Z; [reflexivity|]. destruct (zmem i regs); reflexivity. Qed.

(* a goto line in the block of a chunk is its last line but one, before the blank line *)
Lemma goto_in_block d nx c bpre l bpost :
  get_chunk G d = Some c -> block_of d nx = bpre ++ IGoto l :: bpost ->
  l = lbl name (tail_of c) /\ bpost = [IBlank] /\ tail_of c <> nx /\ (In (tail_of c) (stargets c) \/ tail_of c <> (-1)%Z).
Proof.
  intros GC E. unfold RenderSim.block_of in E. rewrite GC in E. unfold RenderSim.body_of in E.
  destruct (render_branch mp name c nx) as [[b rg] fall] eqn:EB.
  destruct (branch_goto_shape c nx b rg fall EB) as [(b' & -> & NB & -> & NX & RE)|NB].
  - assert (E' : (labelpart d ++ flat_map (render_stmt mp) (cstmts c) ++ b') ++ [IGoto (lbl name (tail_of c)); IBlank] = bpre ++ IGoto l :: bpost).
    { rewrite <- E, <- !app_assoc. reflexivity. }
    apply goto_tail in E'.
    + destruct E' as (-> & -> & _). auto.
    + apply nog_app. split; [apply nog_labelpart|]. apply nog_app. split; [apply nog_render_stmts|exact NB].
  - exfalso. eapply nog_no_goto; [|exact E]. apply nog_app. split; [apply nog_labelpart|]. apply nog_app. split; [apply nog_render_stmts|].
    apply nog_app. split; [exact NB|destruct fall; reflexivity].
Qed.

(* a label name defined in a run of blocks is the header of one of its chunks or a label statement of one of its chunks *)
Lemma lnames_blocks_in n l nx : In n (lnames (blocks l nx)) ->
  exists c, In c (rchunks G l) /\ (In n (lnames (labelpart (cid c))) \/ In n (map fst (user_labels (cstmts c)))).
Proof.
  unfold lnames. rewrite labels_blocks. intros H. apply in_map_iff in H. destruct H as ([n' g] & <- & H).
  apply in_flat_map in H. destruct H as (c & Hc & H). exists c. split; [exact Hc|].
  apply in_app_or in H. destruct H as [H|H]; [left|right]; apply in_map_iff; exists (n', g); split; auto.
Qed.
End GOTOSHAPE.

Lemma rchunks_intro G order c : NoDup (map cid G) -> In c G -> In (cid c) order -> In c (rchunks G order).
Proof.
  intros ND Hc Hi. unfold rchunks. apply in_flat_map. exists (cid c). split; [exact Hi|].
  rewrite (get_chunk_nodup G ND c Hc). now left.
Qed.
Lemma rchunks_app G a b : rchunks G (a ++ b) = rchunks G a ++ rchunks G b.
Proof. unfold rchunks. apply flat_map_app. Qed.

Section GOTO.
Variable mp : option text.
Variable tl : list text.
Variable name : text.
Variable glob : bool.
Variable body : list stmt.
Variable w : wst.
Hypothesis HW : emit_graph body = Ok w.
Hypothesis HS : src_ok body.
Hypothesis SZ : (Z.of_nat (List.length (finals w)) <= 10 ^ 40)%Z.      (* decimal printing of chunk ids in the model has 40 digits *)
Let G := finals w.

(* a label statement of a rendered chunk is never named like a chunk label *)
Lemma user_label_not_chunk_label opt code c n :
  render_chunks mp tl name glob G (order_of opt G) = Ok code -> In c G -> In n (map fst (user_labels (cstmts c))) ->
  ~ In n (map (chunk_label name) G).
Proof.
  intros RC Hc Hn. destruct (render_chunks_lnames _ _ _ _ _ _ _ RC) as (regs & _ & CL). rewrite Forall_forall in CL.
  assert (Hr : In c (rchunks G (order_of opt G))).
  { apply rchunks_intro; [apply (G_nodup body w HW HS)|exact Hc|].
    apply (Permutation_in _ (Permutation_sym (G_order_perm body w HW HS opt))). apply in_map. exact Hc. }
  exact (proj1 (clash_none _ _ _ (CL c Hr) n Hn)).
Qed.

Lemma id_bound i : In i (map cid G) -> (0 <= i < 10 ^ 40)%Z.
Proof. intros H. apply in_map_iff in H. destruct H as (c & <- & Hc). pose proof (G_range body w HW HS c Hc). fold G in H. unfold G in *. lia. Qed.

(* the target of a generated goto is a chunk of the graph, not chunk 0 *)
Lemma goto_target_real c : In c G -> (In (tail_of c) (stargets c) \/ tail_of c <> (-1)%Z) ->
  (0 < tail_of c)%Z /\ In (tail_of c) (map cid G).
Proof.
  intros Hc RE. destruct (final_graph_shape body w HW HS) as (_ & _ & ST & TG & _). fold G in ST, TG.
  destruct RE as [S|N]; [exact (ST c Hc _ S)|]. destruct (TG c Hc _ (tail_in_targets c)) as [Q|Q]; [contradiction|exact Q].
Qed.

(* THEOREM (c2), optimized output: every generated goto jumps backwards - its label is not defined anywhere after it *)
Theorem optimized_gotos_go_backward_sec code :
  emit_script mp tl name glob true body = Ok code ->
  forall pre l post, code = pre ++ IGoto l :: post -> ~ In l (lnames post).
Proof.
  intros H pre l post E LN. destruct (script_code mp tl name glob body w HW true code H) as (RC & C & _). fold G in RC, C.
  set (regs := all_regs mp name G (order_of true G) (-1)) in *.
  rewrite C in E.
  destruct (blocks_split _ _ _ _ _ _ _ _ _ _ E) as (l1 & d & l2 & bpre & bpost & ORD & B & -> & ->).
  assert (Hd : In d (order_of true G)) by (rewrite ORD; apply in_or_app; right; left; reflexivity).
  destruct (G_order_chunk body w HW HS true d Hd) as (c & GC & Hc & CID & _). fold G in GC, Hc.
  destruct (goto_in_block _ _ _ _ _ _ _ _ _ _ _ GC B) as (-> & -> & NX & RE).
  destruct (goto_target_real c Hc RE) as [XP XI]. set (X := tail_of c) in *.
  rewrite lnames_app in LN. cbn [lnames labels_of flat_map map app] in LN.
  apply lnames_blocks_in in LN. destruct LN as (cj & Hcj & [L1|L2]).
  - (* the header of a later chunk *)
    destruct (rchunks_in _ _ _ Hcj) as [J2 JG].
    assert (XJ : cid cj = X).
    { unfold RenderSim.labelpart in L1. destruct (Z.eqb_spec (cid cj) 0) as [Z0|Z0].
      - destruct L1 as [L1|[]]. exfalso. symmetry in L1. exact (lbl_ne_name _ _ L1).
      - destruct (zmem (cid cj) regs); [|destruct L1]. destruct L1 as [L1|[]].
        apply (lbl_inj name); [apply id_bound; apply in_map; exact JG|apply id_bound; exact XI|exact L1]. }
    rewrite XJ in J2.
    destruct l2 as [|j0 l2']; [destruct J2|]. cbn [hd] in NX.
    pose proof (G_order_nodup body w HW HS true) as ND. fold G in ND. rewrite ORD in ND.
    destruct (opt_order_Q G l1 d j0 l2' c ORD GC) as [Q|[Q|[Q|Q]]].
    + contradiction.
    + fold X in Q. lia.
    + fold X in Q. change (l1 ++ d :: j0 :: l2') with (l1 ++ [d] ++ j0 :: l2') in ND. rewrite app_assoc in ND.
      exact (nodup_app_disj _ _ X ND Q J2).
    + fold X in Q. destruct (G_id_chunk body w HW HS X XI) as (cx & GX & _). fold G in GX. congruence.
  - (* a label statement of a later chunk *)
    destruct (rchunks_in _ _ _ Hcj) as [_ JG].
    apply (user_label_not_chunk_label true code cj _ RC JG L2).
    destruct (G_id_chunk body w HW HS X XI) as (cx & _ & HX & CX). fold G in HX.
    apply in_map_iff. exists cx. split; [|exact HX]. unfold chunk_label. rewrite CX.
    destruct (Z.eqb_spec X 0); [lia|reflexivity].
Qed.

(* THEOREM (c2), any setting, partial: a generated goto that is followed - blank lines and line markers aside - by the
   definition of its own label can only occur across a chunk B rendered right after the goto that has no statements, is
   not chunk 0 and that no generated jump targets (so: an unreachable empty chunk).
   MISSING for the full statement with optimize = false: that the ascending order never places such a chunk B between a
   chunk A and the fall-through successor of both. *)
Theorem goto_to_next_label_partial_sec opt code :
  emit_script mp tl name glob opt body = Ok code ->
  forall pre l mid g post, code = pre ++ IGoto l :: mid ++ ILabel l g :: post -> Forall skip mid ->
  exists l1 A B l2 cA cB,
    order_of opt G = l1 ++ A :: B :: l2 /\ get_chunk G A = Some cA /\ get_chunk G B = Some cB /\
    l = lbl name (tail_of cA) /\ tail_of cA <> B /\ B <> 0%Z /\ cstmts cB = [] /\ ~ In (lbl name B) (targets_of code).
Proof.
  intros H pre l mid g post E SK. destruct (script_code mp tl name glob body w HW opt code H) as (RC & C & T). fold G in RC, C, T.
  set (regs := all_regs mp name G (order_of opt G) (-1)) in *.
  rewrite C in E.
  destruct (blocks_split _ _ _ _ _ _ _ _ _ _ E) as (l1 & d & l2 & bpre & bpost & ORD & B & _ & E2). symmetry in E2.
  assert (Hd : In d (order_of opt G)) by (rewrite ORD; apply in_or_app; right; left; reflexivity).
  destruct (G_order_chunk body w HW HS opt d Hd) as (c & GC & Hc & CID & _). fold G in GC, Hc.
  destruct (goto_in_block _ _ _ _ _ _ _ _ _ _ _ GC B) as (-> & -> & NX & RE).
  destruct (goto_target_real c Hc RE) as [XP XI]. set (X := tail_of c) in *.
  assert (NSL : forall n gg, ~ skip (ILabel n gg)) by (intros n gg [Q|(k & Q)]; discriminate Q).
  destruct l2 as [|B0 l2'].
  { exfalso. cbn [RenderSim.blocks app] in E2. destruct mid as [|m0 [|m1 mid]]; cbn [app] in E2; try discriminate E2; inversion E2. }
  cbn [hd] in NX.
  assert (HB : In B0 (order_of opt G)) by (rewrite ORD; apply in_or_app; right; right; left; reflexivity).
  destruct (G_order_chunk body w HW HS opt B0 HB) as (cB & GB & HcB & CIDB & _). fold G in GB, HcB.
  exists l1, d, B0, l2', c, cB. split; [exact ORD|]. split; [exact GC|]. split; [exact GB|]. split; [reflexivity|]. split; [exact NX|].
  rewrite blocks_cons in E2. unfold RenderSim.block_of in E2. rewrite GB in E2. unfold RenderSim.labelpart in E2.
  assert (LX : forall k, lbl name k = lbl name X -> In k (map cid G) -> k = X).
  { intros k Q Hk. apply (lbl_inj name); [apply id_bound; exact Hk|apply id_bound; exact XI|exact Q]. }
  assert (BI : In B0 (map cid G)) by (rewrite <- CIDB; apply in_map; exact HcB).
  destruct (Z.eqb_spec B0 0) as [Z0|Z0].
  { exfalso. cbn [app] in E2.
    destruct (first_nonskip [IBlank] mid _ _ _ _ ltac:(repeat constructor; now left) SK (NSL _ _) (NSL _ _) E2) as (_ & Q & _).
    inversion Q as [[Q1 Q2]]. symmetry in Q1. exact (lbl_ne_name _ _ Q1). }
  destruct (zmem B0 regs) eqn:ZM.
  { exfalso. cbn [app] in E2.
    destruct (first_nonskip [IBlank] mid _ _ _ _ ltac:(repeat constructor; now left) SK (NSL _ _) (NSL _ _) E2) as (_ & Q & _).
    inversion Q as [[Q1 Q2]]. apply NX. symmetry. apply LX; [exact Q1|exact BI]. }
  split; [exact Z0|]. split.
  - (* no statements *)
    destruct (cstmts cB) as [|s ss] eqn:CS; [reflexivity|exfalso].
    pose proof (proj2 (graph_scoped_labels_are_source_labels body w HW HS)) as SF. fold G in SF. rewrite Forall_forall in SF.
    specialize (SF cB HcB). rewrite CS in SF. pose proof (Forall_inv SF) as S1.
    unfold RenderSim.body_of in E2. rewrite CS in E2. destruct (render_branch mp name cB (hd (-1)%Z l2')) as [[bb rg] fall].
    cbn [app flat_map] in E2.
    destruct s as [c0|n0 g0 tk0| | | | | | ]; try discriminate S1; cbn [render_stmt] in E2; rewrite <- !app_assoc in E2; cbn [app] in E2.
    + assert (E3 : (IBlank :: marker mp (tline (ctok c0))) ++ ICmd c0 :: (flat_map (render_stmt mp) ss ++ bb ++ (if fall then [] else [IBlank])) ++ blocks mp name glob G regs l2' (-1) = mid ++ ILabel (lbl name X) g :: post).
      { rewrite <- E2. cbn [app]. rewrite <- !app_assoc. reflexivity. }
      apply first_nonskip in E3; [destruct E3 as (_ & Q & _); discriminate Q| |exact SK| |apply NSL].
      * constructor; [now left|apply skip_marker].
      * intros [Q|(k & Q)]; discriminate Q.
    + assert (E3 : (IBlank :: marker mp (tline tk0)) ++ ILabel n0 g0 :: (flat_map (render_stmt mp) ss ++ bb ++ (if fall then [] else [IBlank])) ++ blocks mp name glob G regs l2' (-1) = mid ++ ILabel (lbl name X) g :: post).
      { rewrite <- E2. cbn [app]. rewrite <- !app_assoc. reflexivity. }
      apply first_nonskip in E3; [| |exact SK|apply NSL|apply NSL].
      * destruct E3 as (_ & Q & _). inversion Q as [[Q1 Q2]].
        apply (user_label_not_chunk_label opt code cB n0 RC HcB); [rewrite CS; cbn; now left|].
        destruct (G_id_chunk body w HW HS X XI) as (cx & _ & HX & CX). fold G in HX.
        apply in_map_iff. exists cx. split; [|exact HX]. unfold chunk_label. rewrite CX, Q1.
        destruct (Z.eqb_spec X 0); [lia|reflexivity].
      * constructor; [now left|apply skip_marker].
  - (* nothing jumps to B *)
    rewrite T. intros Q. apply in_map_iff in Q. destruct Q as (r & Q & Hr).
    destruct (all_regs_targets mp name G _ _ _ Hr) as (cr & Hcr & Ht).
    destruct (final_graph_shape body w HW HS) as (_ & _ & _ & TG & _). fold G in TG.
    assert (B0R : (0 <= B0 < 10 ^ 40)%Z) by (apply id_bound; exact BI).
    destruct (TG cr Hcr r Ht) as [->|[_ RI]].
    + exact (lbl_m1_ne name B0 ltac:(lia) Q).
    + assert (r = B0) by (apply (lbl_inj name); [apply id_bound; exact RI|exact B0R|exact Q]). subst r.
      apply zmem_in in Hr. fold regs in Hr. congruence.
Qed.
End GOTO.

(* THEOREM (c2), optimized output: every generated goto jumps backwards - the label it names is not defined anywhere after
   the goto line *)
Theorem optimized_gotos_go_backward mp tl name glob body w code :
  emit_graph body = Ok w -> src_ok body ->
  (Z.of_nat (List.length (finals w)) <= 10 ^ 40)%Z ->         (* decimal printing of chunk ids in the model has 40 digits *)
  emit_script mp tl name glob true body = Ok code ->
  forall pre l post, code = pre ++ IGoto l :: post -> ~ In l (lnames post).
Proof. intros HW HS SZ. exact (optimized_gotos_go_backward_sec mp tl name glob body w HW HS SZ code). Qed.

(* in particular no generated goto of the optimized output is followed by the definition of its own label - neither on the
   very next line nor later *)
Theorem no_goto_to_a_later_label_optimized mp tl name glob body w code :
  emit_graph body = Ok w -> src_ok body ->
  (Z.of_nat (List.length (finals w)) <= 10 ^ 40)%Z ->
  emit_script mp tl name glob true body = Ok code ->
  forall pre l mid g post, code = pre ++ IGoto l :: mid ++ ILabel l g :: post -> False.
Proof.
  intros HW HS SZ H pre l mid g post E.
  apply (optimized_gotos_go_backward mp tl name glob body w code HW HS SZ H pre l (mid ++ ILabel l g :: post) E).
  rewrite lnames_app. apply in_or_app. right. left. reflexivity.
Qed.

(* THEOREM (c2), either setting, PARTIAL (see the comment at goto_to_next_label_partial_sec for what is missing) *)
Theorem goto_to_next_label_partial mp tl name glob body w opt code :
  emit_graph body = Ok w -> src_ok body ->
  (Z.of_nat (List.length (finals w)) <= 10 ^ 40)%Z ->
  emit_script mp tl name glob opt body = Ok code ->
  forall pre l mid g post, code = pre ++ IGoto l :: mid ++ ILabel l g :: post -> Forall skip mid ->
  exists l1 A B l2 cA cB,
    order_of opt (finals w) = l1 ++ A :: B :: l2 /\ get_chunk (finals w) A = Some cA /\ get_chunk (finals w) B = Some cB /\
    l = lbl name (tail_of cA) /\ tail_of cA <> B /\ B <> 0%Z /\ cstmts cB = [] /\ ~ In (lbl name B) (targets_of code).
Proof. intros HW HS SZ. exact (goto_to_next_label_partial_sec mp tl name glob body w HW HS SZ opt code). Qed.

(* validated form for either setting: an executable check of the emitted code against the chunk graph - every chunk other
   than chunk 0 has a statement or is the target of a jump of the code - excludes the situation left open above.  (The check
   is sufficient, not necessary: unreachable empty chunks do occur, e.g. for a loop statement placed right after `break`.) *)
Definition no_dead_empty_chunk (name : text) (G : list chunk) (code : list instr) : bool :=
  forallb (fun c => (cid c =? 0)%Z || match cstmts c with [] => false | _ => true end ||
                    existsb (text_eqb (lbl name (cid c))) (targets_of code)) G.

Theorem no_goto_to_next_label_checked mp tl name glob body w opt code :
  emit_graph body = Ok w -> src_ok body ->
  (Z.of_nat (List.length (finals w)) <= 10 ^ 40)%Z ->
  emit_script mp tl name glob opt body = Ok code ->
  no_dead_empty_chunk name (finals w) code = true ->
  forall pre l mid g post, code = pre ++ IGoto l :: mid ++ ILabel l g :: post -> Forall skip mid -> False.
Proof.
  intros HW HS SZ H CK pre l mid g post E SK.
  destruct (goto_to_next_label_partial mp tl name glob body w opt code HW HS SZ H pre l mid g post E SK)
    as (l1 & A & B & l2 & cA & cB & _ & _ & GB & _ & _ & B0 & CS & NT).
  unfold no_dead_empty_chunk in CK. rewrite forallb_forall in CK. specialize (CK cB (EmitProps.get_chunk_in _ _ _ GB)).
  rewrite (get_chunk_cid' _ _ _ GB), CS in CK. destruct (Z.eqb_spec B 0) as [Q|_]; [contradiction|]. cbn [orb] in CK.
  apply existsb_exists in CK. destruct CK as (x & Hx & Q). apply text_eqb_iff in Q. subst x. exact (NT Hx).
Qed.

(* ================================================================================================================== *)
(* both settings accept the same scripts and the same programs                                                         *)
(* ================================================================================================================== *)
Theorem optimize_accepts_same_scripts mp tl name glob body :
  src_ok body ->
  ((exists code, emit_script mp tl name glob false body = Ok code) <-> (exists code, emit_script mp tl name glob true body = Ok code)).
Proof.
  intros HS. destruct (emit_graph body) as [w| | | |] eqn:HW.
  - rewrite (emit_script_accepts_iff mp tl name glob false body w HW HS), (emit_script_accepts_iff mp tl name glob true body w HW HS). reflexivity.
  - split; intros (code & E); rewrite emit_script_eq, HW in E; discriminate.
  - split; intros (code & E); rewrite emit_script_eq, HW in E; discriminate.
  - split; intros (code & E); rewrite emit_script_eq, HW in E; discriminate.
  - split; intros (code & E); rewrite emit_script_eq, HW in E; discriminate.
Qed.

Theorem optimize_accepts_same_programs mp p :
  Forall src_ok (ProgWf.bodies_of (tops p)) ->
  ((exists out, emit_program false mp p = Ok out) <-> (exists out, emit_program true mp p = Ok out)).
Proof. intros S. rewrite (emit_program_accepts_iff false mp p S), (emit_program_accepts_iff true mp p S). reflexivity. Qed.

(* every script piece of the layout is a script of the program; its body is one of ProgWf.bodies_of *)
Lemma in_piece_scripts n g b ps : In (PScript n g b) ps -> In (n, g, b) (piece_scripts ps).
Proof. intros H. unfold piece_scripts. apply in_flat_map. exists (PScript n g b). split; [exact H|now left]. Qed.

Theorem script_pieces_are_program_bodies mp p n g b :
  In (PScript n g b) (program_pieces mp p) -> In (n, g, b) (scripts_of (tops p)) /\ In b (ProgWf.bodies_of (tops p)).
Proof.
  intros H. apply in_piece_scripts in H. rewrite program_pieces_scripts in H. split; [exact H|].
  rewrite <- scripts_bodies. apply in_map_iff. exists (n, g, b). split; [reflexivity|exact H].
Qed.

(* ================================================================================================================== *)
(* from the source text: the premises on the script body hold for every script of every accepted program              *)
(* ================================================================================================================== *)
From Pory Require Import Parser Format ProgWf ProgSrc.

Section FROM_SOURCE.
Variables (hl hd hs : N -> bool) (autovars : list (text * autovar)) (switches : list (text * text)) (ee : bool)
          (fc : fontcfg) (cli_font : text) (cli_maxlen : Z) (src : text) (p : program).
Hypothesis HP : parse_program autovars switches ee (parse_format fc cli_font cli_maxlen ee) (lex hl hd hs src) = Parser.Ok p.

Lemma accepted_src_ok body : In body (bodies_of (tops p)) -> src_ok body.
Proof.
  intros HB. pose proof (accepted_bodies_are_src_ok hl hd hs autovars switches ee fc cli_font cli_maxlen src p HP) as A.
  rewrite Forall_forall in A. exact (proj1 (A body HB)).
Qed.

Theorem script_labels_from_source body mp tl name glob w code0 code1 :
  In body (bodies_of (tops p)) -> emit_graph body = Emitter.Ok w ->
  emit_script mp tl name glob false body = Emitter.Ok code0 -> emit_script mp tl name glob true body = Emitter.Ok code1 ->
  exists gen0 gen1 : list Z,
    Permutation (labels_of code0) ((name, glob) :: slabs body ++ map (fun i => (lbl name i, false)) gen0) /\
    Permutation (labels_of code1) ((name, glob) :: slabs body ++ map (fun i => (lbl name i, false)) gen1) /\
    NoDup gen0 /\ NoDup gen1 /\
    (forall i, In i gen0 -> (0 < i < Z.of_nat (List.length (finals w)))%Z /\ In (lbl name i) (targets_of code0)) /\
    (forall i, In i gen1 -> (0 < i < Z.of_nat (List.length (finals w)))%Z /\ In (lbl name i) (targets_of code1)).
Proof. intros HB HW. apply script_labels_both; [exact HW|apply accepted_src_ok; exact HB]. Qed.

Theorem script_code_same_multiset_from_source body mp tl name glob w code0 code1 :
  In body (bodies_of (tops p)) -> emit_graph body = Emitter.Ok w ->
  emit_script mp tl name glob false body = Emitter.Ok code0 -> emit_script mp tl name glob true body = Emitter.Ok code1 ->
  Permutation (filter essential code0) (filter essential code1) /\ Permutation (filter is_cmd code0) (filter is_cmd code1).
Proof.
  intros HB HW H0 H1. pose proof (accepted_src_ok body HB) as HS. split.
  - exact (script_code_same_multiset mp tl name glob body w code0 code1 HW HS H0 H1).
  - exact (script_commands_same_multiset mp tl name glob body w code0 code1 HW HS H0 H1).
Qed.

Theorem optimized_gotos_go_backward_from_source body mp tl name glob w code :
  In body (bodies_of (tops p)) -> emit_graph body = Emitter.Ok w ->
  (Z.of_nat (List.length (finals w)) <= 10 ^ 40)%Z ->
  emit_script mp tl name glob true body = Emitter.Ok code ->
  forall pre l post, code = pre ++ IGoto l :: post -> ~ In l (lnames post).
Proof. intros HB HW. apply optimized_gotos_go_backward; [exact HW|apply accepted_src_ok; exact HB]. Qed.

Theorem optimize_accepts_same_from_source mp :
  (exists out, emit_program false mp p = Emitter.Ok out) <-> (exists out, emit_program true mp p = Emitter.Ok out).
Proof.
  apply optimize_accepts_same_programs. apply Forall_forall. intros b Hb. apply accepted_src_ok. exact Hb.
Qed.
End FROM_SOURCE.

(* ================================================================================================================== *)
(* the hypotheses are satisfiable: a concrete program (script with if / else / while / break and two label statements, a   *)
(* raw statement, a movement, mapscripts with an inline script and a table with an inline script, a hoisted text)          *)
(* ================================================================================================================== *)
Module EXAMPLES.
Local Open Scope string_scope.
Definition ex_src : string :=
  "script A { lock" ++ NameClash.nl ++
  " if (flag(F)) { Inner: msgbox(""hi"") } else { while (flag(G)) { step if (flag(H)) { break } } }" ++ NameClash.nl ++
  " Done(global): release }" ++ NameClash.nl ++
  "raw `x`" ++ NameClash.nl ++ "movement M { walk_up }" ++ NameClash.nl ++
  "mapscripts MS { MAP_SCRIPT_ON_LOAD { if (flag(Q)) { lock } release } MAP_SCRIPT_ON_FRAME_TABLE [ VAR_T, 0: Other " ++ NameClash.nl ++
  " VAR_T, 1 { while (flag(Z)) { lock } } ] }".
Definition ex_p : program :=
  match parse_program [] [] false pf0 (lex0 ex_src) with Parser.Ok p => p | _ => {| tops := []; texts := [] |} end.
Definition ex_body : list stmt := NameClash.body_of ex_src.
Definition ex_w : wst := match emit_graph ex_body with Emitter.Ok w => w | _ => {| remaining := []; finals := []; counter := 0; brk := []; org := [] |} end.
Definition ex_code (o : bool) : list instr := match emit_script None [] (t "A") true o ex_body with Emitter.Ok c => c | _ => [] end.
Definition kind (pc : piece) : string := match pc with PData _ => "data" | PScript n _ _ => show n end.

Example ex_parsed : parse_program [] [] false pf0 (lex0 ex_src) = Parser.Ok ex_p /\ In ex_body (bodies_of (tops ex_p)).
Proof. split; [vm_compute; reflexivity|vm_compute; left; reflexivity]. Qed.

(* (b1): both settings produce output, the outputs differ, and the layout has ten data pieces and three script pieces *)
Example ex_program :
  (exists code0 code1, emit_program_instrs false None ex_p = Emitter.Ok code0 /\ emit_program_instrs true None ex_p = Emitter.Ok code1 /\
                       List.length code0 = 86%nat /\ List.length code1 = 62%nat) /\
  map kind (program_pieces None ex_p) =
    ["A"; "data"; "data"; "data"; "data"; "data"; "data"; "MS_MAP_SCRIPT_ON_LOAD"; "data"; "MS_MAP_SCRIPT_ON_FRAME_TABLE_1"; "data"].
Proof. split; [eexists; eexists; split; [vm_compute; reflexivity|split; [vm_compute; reflexivity|split; vm_compute; reflexivity]]|vm_compute; reflexivity]. Qed.

(* the hypotheses of the script theorems on the first script of the program *)
Example ex_script_hyps :
  emit_graph ex_body = Emitter.Ok ex_w /\ src_ok ex_body /\ (Z.of_nat (List.length (finals ex_w)) <= 10 ^ 40)%Z /\
  emit_script None [] (t "A") true false ex_body = Emitter.Ok (ex_code false) /\
  emit_script None [] (t "A") true true ex_body = Emitter.Ok (ex_code true) /\
  List.length (finals ex_w) = 10%nat /\ ex_code false <> ex_code true /\
  map (fun x : text * bool => (show (Datatypes.fst x), Datatypes.snd x)) (slabs ex_body) = [("Inner", false); ("Done", true)].
Proof.
  split; [vm_compute; reflexivity|]. split; [apply C01Main.src_okb_sound; vm_compute; reflexivity|].
  split; [apply Z.leb_le; vm_compute; reflexivity|]. split; [vm_compute; reflexivity|]. split; [vm_compute; reflexivity|].
  split; [vm_compute; reflexivity|]. split; [|vm_compute; reflexivity].
  intros E. apply (f_equal (@List.length instr)) in E. vm_compute in E. discriminate E.
Qed.

(* the label definitions of the two outputs: the unoptimized output defines all nine sub-labels, the optimized one four *)
Example ex_labels :
  map (fun x : text * bool => show (Datatypes.fst x)) (labels_of (ex_code false)) =
    ["A"; "A_1"; "Done"; "A_2"; "Inner"; "A_3"; "A_4"; "A_5"; "A_6"; "A_7"; "A_8"; "A_9"] /\
  map (fun x : text * bool => show (Datatypes.fst x)) (labels_of (ex_code true)) =
    ["A"; "A_5"; "A_1"; "Done"; "A_2"; "Inner"; "A_6"; "A_8"].
Proof. split; vm_compute; reflexivity. Qed.

(* the theorems, instantiated *)
Example ex_b3 : Permutation (filter essential (ex_code false)) (filter essential (ex_code true)).
Proof.
  destruct ex_script_hyps as (HW & HS & _ & H0 & H1 & _).
  exact (script_code_same_multiset None [] (t "A") true ex_body ex_w _ _ HW HS H0 H1).
Qed.
Example ex_c2 : forall pre l post, ex_code true = (pre ++ IGoto l :: post)%list -> ~ In l (lnames post).
Proof.
  destruct ex_script_hyps as (HW & HS & SZ & _ & H1 & _).
  exact (optimized_gotos_go_backward None [] (t "A") true ex_body ex_w _ HW HS SZ H1).
Qed.

(* optimized_gotos_go_backward is about the optimized output only: the unoptimized output of the same script begins with
   a forward goto (lock / goto A_4) *)
Example ex_forward_goto_unoptimized :
  exists pre l post, ex_code false = (pre ++ IGoto l :: post)%list /\ In l (lnames post) /\ show l = "A_4".
Proof.
  exists (firstn 2 (ex_code false)), (t "A_4"), (skipn 3 (ex_code false)).
  split; [vm_compute; reflexivity|]. split; [|vm_compute; reflexivity].
  vm_compute. do 5 right. left. reflexivity.
Qed.

(* (c2) for optimize = false needs more than src_ok.  A `continue` that names a loop it is not inside (the parser never
   produces this: the body is not Tr.scoped; the source check src_ok accepts it) makes the ascending order render
   `goto A_2`, a blank line and `A_2:` - across chunk 1, which is empty and which nothing jumps to: exactly the situation
   goto_to_next_label_partial leaves open.  A full statement for optimize = false therefore needs the scoping premise. *)
Definition tk0 : token := {| ttype := IDENT; tlit := t "x"; tline := 1; tsb := 0; tsu := 0; teline := 1; teb := 0; teu := 0 |}.
Definition cmd0 (s : string) : cmd := {| cname := t s; cargs := []; ctok := tk0; Ast.cid := 0 |}.
Definition unscoped_body : list stmt := [SWhile 0 None [SCmd (cmd0 "lock")]; SContinue 0].
Example ascending_order_needs_scoping :
  src_ok unscoped_body /\ ~ scoped None None unscoped_body /\
  exists code pre l g post,
    emit_script None [] (t "A") true false unscoped_body = Emitter.Ok code /\
    code = (pre ++ IGoto l :: IBlank :: ILabel l g :: post)%list /\ show l = "A_2".
Proof.
  split; [apply C01Main.src_okb_sound; vm_compute; reflexivity|]. split.
  - intros S. inversion S as [|? ? ? ? _ S2]; subst. inversion S2 as [|? ? ? ? S3 _]; subst. inversion S3; discriminate.
  - eexists. exists [ILabel (t "A") true], (t "A_2"), false. eexists. split; [vm_compute; reflexivity|]. split; reflexivity.
Qed.

(* the executable check of no_goto_to_next_label_checked holds for the unoptimized output of the example script and fails
   for the unscoped body.  It is meant for optimize = false: in the optimized order empty chunks reached by falling through
   are common (here chunk 3, the entry of the else branch) and the unconditional theorem applies instead. *)
Example ex_check :
  no_dead_empty_chunk (t "A") (finals ex_w) (ex_code false) = true /\ no_dead_empty_chunk (t "A") (finals ex_w) (ex_code true) = false /\
  match emit_graph unscoped_body, emit_script None [] (t "A") true false unscoped_body with
  | Emitter.Ok w, Emitter.Ok code => no_dead_empty_chunk (t "A") (finals w) code = false
  | _, _ => False
  end.
Proof. split; [vm_compute; reflexivity|]. split; vm_compute; reflexivity. Qed.
End EXAMPLES.
