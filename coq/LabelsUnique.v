(* The labels of a rendered script are pairwise distinct.

   render_chunks writes, for every chunk of the order that exists in the graph,
     - the script name (chunk 0), or the generated label  name_<id>  (registered chunk <> 0), or nothing,
     - then the labels the author wrote in the statements of the chunk.
   Theorem rendered_labels_distinct: these label names are pairwise distinct, provided the order has no repetition,
   the ids of the order are printed faithfully by the 40-digit decimal printer, and the author's labels are pairwise
   distinct.  Hence the conjunct  nodupt (lnames code)  of RenderCheck.wf_render is a theorem (rendered_labels_nodupt),
   not a run-time premise.

   Ingredients:
     1. dec / decZ is injective on 0 <= z < 10^40   (dec_aux_val: the printed digits evaluate back to the number);
     2. lbl name i = lbl name j -> i = j,  lbl name i <> name;
     3. shape of the code: lnames code = flat_map (fun c => header c ++ user labels of c) (rchunks G order),
        where rchunks G order are the chunks found for the entries of the order (missing entries are skipped);
     4. the clash check of render_bodies: a user label of a rendered chunk differs from chunk_label name c' for every c' of G. *)
From Coq Require Import List String Ascii ZArith NArith Lia Bool.
From Pory Require Import Lexer Ast Emitter Sem2 SemTgt EmitProps RenderSim RenderCheck LabelSim.
Import ListNotations.
Open Scope list_scope.

(* ---------- generic facts about NoDup ---------- *)
Lemma NoDup_app_inv' {A} (a b : list A) :
  NoDup (a ++ b) -> NoDup a /\ NoDup b /\ (forall x, In x a -> In x b -> False).
Proof.
  induction a as [|y a IH]; cbn [app]; intros H.
  - split; [constructor|]. split; [exact H|]. intros x [].
  - inversion H as [|? ? N1 N2]; subst. destruct (IH N2) as (I1 & I2 & I3). split; [|split].
    + constructor; [|exact I1]. intros X. apply N1. apply in_or_app. now left.
    + exact I2.
    + intros x [->|Hx] Hb.
      * apply N1. apply in_or_app. now right.
      * eapply I3; eauto.
Qed.

Lemma NoDup_app_intro' {A} (a b : list A) :
  NoDup a -> NoDup b -> (forall x, In x a -> In x b -> False) -> NoDup (a ++ b).
Proof.
  induction a as [|y a IH]; cbn [app]; intros Ha Hb D; [exact Hb|].
  inversion Ha as [|? ? N1 N2]; subst. constructor.
  - intros X. apply in_app_or in X. destruct X as [X|X]; [now apply N1|]. apply (D y); [now left|exact X].
  - apply IH; [exact N2|exact Hb|]. intros x Hx. apply D. now right.
Qed.

(* a NoDup flat_map: every block is NoDup, and the blocks of two different elements are disjoint *)
Lemma flat_map_nodup_block {A B} (f : A -> list B) G c : NoDup (flat_map f G) -> In c G -> NoDup (f c).
Proof.
  induction G as [|a G IH]; cbn [flat_map]; intros ND Hc; [destruct Hc|].
  destruct (NoDup_app_inv' _ _ ND) as (I1 & I2 & _). destruct Hc as [->|Hc]; [exact I1|auto].
Qed.

Lemma flat_map_nodup_disj {A B} (f : A -> list B) G c c' x :
  NoDup (flat_map f G) -> In c G -> In c' G -> c <> c' -> In x (f c) -> In x (f c') -> False.
Proof.
  induction G as [|a G IH]; cbn [flat_map]; intros ND Hc Hc' NE X X'; [destruct Hc|].
  destruct (NoDup_app_inv' _ _ ND) as (I1 & I2 & I3).
  destruct Hc as [->|Hc]; destruct Hc' as [->|Hc'].
  - now apply NE.
  - apply (I3 x X). apply in_flat_map. exists c'. split; assumption.
  - apply (I3 x X'). apply in_flat_map. exists c. split; assumption.
  - apply IH; assumption.
Qed.

(* the blocks of pairwise different elements of G, in any order, are NoDup again *)
Lemma flat_map_nodup_sub {A B} (f : A -> list B) G cs :
  NoDup (flat_map f G) -> NoDup cs -> (forall c, In c cs -> In c G) -> NoDup (flat_map f cs).
Proof.
  intros ND. induction cs as [|c r IH]; intros NC Inc; cbn [flat_map]; [constructor|].
  inversion NC as [|? ? N1 N2]; subst. apply NoDup_app_intro'.
  - eapply flat_map_nodup_block; [exact ND|]. apply Inc. now left.
  - apply IH; [exact N2|]. intros c' H. apply Inc. now right.
  - intros x X X'. apply in_flat_map in X'. destruct X' as (c' & Hc' & X').
    apply (flat_map_nodup_disj f G c c' x ND); [apply Inc; now left|apply Inc; now right| |exact X|exact X'].
    intros ->. now apply N1.
Qed.

Lemma NoDup_map_transfer {A B C} (f : A -> B) (g : A -> C) l :
  NoDup (map f l) -> (forall a b, In a l -> In b l -> g a = g b -> f a = f b) -> NoDup (map g l).
Proof.
  induction l as [|a l IH]; cbn [map]; intros ND Inj; [constructor|].
  inversion ND as [|? ? N1 N2]; subst. constructor.
  - intros X. apply in_map_iff in X. destruct X as (b & E & Hb). apply N1.
    rewrite (Inj a b); [apply in_map; exact Hb|now left|now right|now symmetry].
  - apply IH; [exact N2|]. intros x y Hx Hy. apply Inj; now right.
Qed.

(* the layout of the label names of a script: a header of at most one name (the key of the element), then a block *)
Lemma nodup_layout {A} (h u : A -> list text) (key : A -> text) cs :
  (forall c, In c cs -> h c = [] \/ h c = [key c]) ->
  NoDup (map key cs) ->
  NoDup (flat_map u cs) ->
  (forall c c' x, In c cs -> In c' cs -> In x (u c) -> x <> key c') ->
  NoDup (flat_map (fun c => h c ++ u c) cs).
Proof.
  induction cs as [|c r IH]; intros Hh NK NU Sep; cbn [flat_map]; [constructor|].
  cbn [map] in NK. inversion NK as [|? ? K1 K2]; subst.
  cbn [flat_map] in NU. destruct (NoDup_app_inv' _ _ NU) as (U1 & U2 & U3).
  assert (IHr : NoDup (flat_map (fun c0 => h c0 ++ u c0) r)).
  { apply IH; [intros; apply Hh; now right|exact K2|exact U2|]. intros a b x Ha Hb. apply Sep; now right. }
  assert (Hin : forall x, In x (h c) -> x = key c).
  { intros x Hx. destruct (Hh c (or_introl eq_refl)) as [E|E]; rewrite E in Hx; [destruct Hx|].
    destruct Hx as [<-|[]]. reflexivity. }
  assert (Rest : forall x, In x (flat_map (fun c0 => h c0 ++ u c0) r) ->
                           exists c', In c' r /\ (x = key c' \/ In x (u c'))).
  { intros x Hx. apply in_flat_map in Hx. destruct Hx as (c' & Hc' & Hx). exists c'. split; [exact Hc'|].
    apply in_app_or in Hx. destruct Hx as [Hx|Hx]; [left|now right].
    destruct (Hh c' (or_intror Hc')) as [E|E]; rewrite E in Hx; [destruct Hx|]. destruct Hx as [<-|[]]. reflexivity. }
  apply NoDup_app_intro'; [apply NoDup_app_intro'| |].
  - destruct (Hh c (or_introl eq_refl)) as [E|E]; rewrite E; [constructor|]. constructor; [intros []|constructor].
  - exact U1.
  - intros x Hx Hu. apply Hin in Hx. subst x. apply (Sep c c (key c)); [now left|now left|exact Hu|reflexivity].
  - exact IHr.
  - intros x Hx Hr. destruct (Rest x Hr) as (c' & Hc' & [E|Hu']).
    + apply in_app_or in Hx. destruct Hx as [Hx|Hx].
      * apply Hin in Hx. apply K1. rewrite <- Hx, E. apply in_map. exact Hc'.
      * apply (Sep c c' x); [now left|now right|exact Hx|exact E].
    + apply in_app_or in Hx. destruct Hx as [Hx|Hx].
      * apply Hin in Hx. apply (Sep c' c x); [now right|now left|exact Hu'|exact Hx].
      * apply (U3 x Hx). apply in_flat_map. exists c'. split; assumption.
Qed.

(* ---------- 1. the decimal printer ---------- *)
(* value of a digit string, most significant digit first, on top of the accumulator a *)
Fixpoint dval (l : text) (a : N) : N :=
  match l with [] => a | d :: r => dval r (a * 10 + (d - 48))%N end.

Lemma dval_app l1 : forall l2 a, dval (l1 ++ l2) a = dval l2 (dval l1 a).
Proof. induction l1 as [|d r IH]; intros l2 a; cbn [app dval]; [reflexivity|apply IH]. Qed.

Lemma dec_aux_eq f n acc :
  dec_aux (S f) n acc =
  if N.eqb (N.div n 10) 0 then (48 + N.modulo n 10)%N :: acc else dec_aux f (N.div n 10) ((48 + N.modulo n 10)%N :: acc).
Proof. reflexivity. Qed.

Lemma dec_aux_acc f : forall n acc, dec_aux f n acc = dec_aux f n [] ++ acc.
Proof.
  induction f as [|f IH]; intros n acc; [reflexivity|]. rewrite !dec_aux_eq.
  destruct (N.eqb (N.div n 10) 0); [reflexivity|].
  rewrite (IH _ (_ :: acc)), (IH _ [_]), <- app_assoc. reflexivity.
Qed.

(* the digits are never the empty text *)
Lemma dec_aux_nonempty f n : dec_aux (S f) n [] <> [].
Proof.
  rewrite dec_aux_eq. destruct (N.eqb (N.div n 10) 0); [discriminate|].
  rewrite dec_aux_acc. intros H. apply app_eq_nil in H. destruct H as [_ H]. discriminate.
Qed.

(* reading the printed digits gives the number back, when the fuel covers its digits *)
Lemma dec_aux_val f : forall n, (n < 10 ^ N.of_nat f)%N -> dval (dec_aux f n []) 0 = n.
Proof.
  induction f as [|f IH]; intros n H.
  - cbn in H. cbn. lia.
  - rewrite Nat2N.inj_succ, N.pow_succ_r' in H. rewrite dec_aux_eq.
    pose proof (N.div_mod n 10 ltac:(lia)) as DM.
    pose proof (N.mod_lt n 10 ltac:(lia)) as ML.
    destruct (N.eqb_spec (N.div n 10) 0) as [E|E].
    + cbn [dval]. rewrite E in DM. clear H IH E. revert DM ML. generalize (n mod 10)%N. intros r DM ML. lia.
    + rewrite dec_aux_acc, dval_app, IH.
      * cbn [dval]. clear H IH E. revert DM ML. generalize (n / 10)%N (n mod 10)%N. intros q r DM ML. lia.
      * apply N.div_lt_upper_bound; [lia|exact H].
Qed.

Lemma dec_inj a b :
  (N.of_nat a < 10 ^ 40)%N -> (N.of_nat b < 10 ^ 40)%N -> dec a = dec b -> a = b.
Proof.
  intros Ha Hb E. unfold dec in E. apply (f_equal (fun l => dval l 0)) in E.
  rewrite !dec_aux_val in E; [apply Nat2N.inj; exact E|exact Hb|exact Ha].
Qed.

Lemma dec_nonempty a : dec a <> [].
Proof. unfold dec. apply dec_aux_nonempty. Qed.

Lemma pow40_N : Z.to_N (10 ^ 40)%Z = (10 ^ 40)%N.
Proof. vm_compute. reflexivity. Qed.

Lemma decZ_nonneg z : (0 <= z)%Z -> decZ z = dec (Z.to_nat z).
Proof. intros H. unfold decZ. destruct (Z.ltb_spec z 0); [lia|reflexivity]. Qed.

Lemma to_nat_small z : (0 <= z < 10 ^ 40)%Z -> (N.of_nat (Z.to_nat z) < 10 ^ 40)%N.
Proof.
  intros [H1 H2]. rewrite Z_nat_N, <- pow40_N. apply Z2N.inj_lt; [exact H1| |exact H2].
  apply Z.pow_nonneg. discriminate.
Qed.

Theorem decZ_inj i j :
  (0 <= i < 10 ^ 40)%Z -> (0 <= j < 10 ^ 40)%Z -> decZ i = decZ j -> i = j.
Proof.
  intros Hi Hj E. rewrite !decZ_nonneg in E by tauto.
  apply dec_inj in E; [|apply to_nat_small; exact Hi|apply to_nat_small; exact Hj].
  apply Z2Nat.inj; tauto.
Qed.

Theorem decZ_nonempty z : (0 <= z)%Z -> decZ z <> [].
Proof. intros H. rewrite decZ_nonneg by exact H. apply dec_nonempty. Qed.

(* the range premise is not an artefact: with 40 digits of fuel the printer keeps the 40 low digits only *)
Example decZ_collision : decZ (10 ^ 40) = decZ (2 * 10 ^ 40) /\ (10 ^ 40 <> 2 * 10 ^ 40)%Z.
Proof.
  split; [|intros H; vm_compute in H; discriminate H].
  assert (P1 : (0 <= 10 ^ 40)%Z) by (apply Z.leb_le; vm_compute; reflexivity).
  assert (P2 : (0 <= 2 * 10 ^ 40)%Z) by (apply Z.leb_le; vm_compute; reflexivity).
  rewrite (decZ_nonneg _ P1), (decZ_nonneg _ P2). unfold dec. rewrite !Z_nat_N. vm_compute. reflexivity.
Qed.

(* ---------- 2. generated labels ---------- *)
Theorem lbl_inj name i j :
  (0 <= i < 10 ^ 40)%Z -> (0 <= j < 10 ^ 40)%Z -> lbl name i = lbl name j -> i = j.
Proof.
  intros Hi Hj E. unfold lbl in E. apply app_inv_head in E. apply app_inv_head in E. now apply decZ_inj.
Qed.

Theorem lbl_ne_name name i : lbl name i <> name.
Proof.
  intros E. apply (f_equal (@List.length N)) in E. unfold lbl in E. rewrite !app_length in E. cbn in E. lia.
Qed.

Lemma chunk_label_inj name c c' :
  (0 <= cid c < 10 ^ 40)%Z -> (0 <= cid c' < 10 ^ 40)%Z -> chunk_label name c = chunk_label name c' -> cid c = cid c'.
Proof.
  intros H H' E. unfold chunk_label in E.
  destruct (Z.eqb_spec (cid c) 0) as [Z0|Z0]; destruct (Z.eqb_spec (cid c') 0) as [Z0'|Z0'].
  - congruence.
  - symmetry in E. now apply lbl_ne_name in E.
  - now apply lbl_ne_name in E.
  - eapply lbl_inj; eauto.
Qed.

(* ---------- 3. the shape of the rendered code ---------- *)
(* the chunks that are rendered: one per entry of the order that exists in the graph *)
Definition rchunks (G : list chunk) (order : list Z) : list chunk :=
  flat_map (fun i => match get_chunk G i with Some c => [c] | None => [] end) order.

(* the author's labels carried by a chunk *)
Definition ulab (c : chunk) : list text := map fst (user_labels (cstmts c)).

Lemma chunk_labels_ulab G : chunk_labels G = flat_map ulab G.
Proof. reflexivity. Qed.

Lemma get_chunk_cid' G c i : get_chunk G i = Some c -> cid c = i.
Proof. apply get_chunk_cid. Qed.

Lemma rchunks_in G order c : In c (rchunks G order) -> In (cid c) order /\ In c G.
Proof.
  intros H. apply in_flat_map in H. destruct H as (i & Hi & H).
  destruct (get_chunk G i) as [c'|] eqn:E; [|destruct H]. destruct H as [<-|[]].
  rewrite (get_chunk_cid' _ _ _ E). split; [exact Hi|eapply get_chunk_in; eauto].
Qed.

Lemma rchunks_nodup G order : NoDup order -> NoDup (map cid (rchunks G order)).
Proof.
  induction order as [|i r IH]; intros ND; [constructor|]. inversion ND as [|? ? N1 N2]; subst.
  unfold rchunks. cbn [flat_map]. fold (rchunks G r).
  destruct (get_chunk G i) as [c|] eqn:E; cbn [app map]; [|auto].
  constructor; [|auto]. intros X. apply in_map_iff in X. destruct X as (c' & E' & Hc').
  apply rchunks_in in Hc'. destruct Hc' as [Hc' _]. rewrite E', (get_chunk_cid' _ _ _ E) in Hc'. now apply N1.
Qed.

Lemma clash_none tl labels ss :
  clash tl labels ss = None -> forall n, In n (map fst (user_labels ss)) -> ~ In n labels /\ ~ In n tl.
Proof.
  induction ss as [|s r IH]; intros H n Hn; [destruct Hn|].
  destruct s as [cm|l g tk| | | | | | ]; cbn [clash] in H; cbn [user_labels flat_map app map] in Hn;
    try (apply IH; assumption).
  destruct (existsb (text_eqb l) labels) eqn:E1; [discriminate|].
  destruct (existsb (text_eqb l) tl) eqn:E2; [discriminate|].
  fold (user_labels r) in Hn. cbn [Datatypes.fst] in Hn. destruct Hn as [<-|Hn]; [|apply IH; assumption].
  split; intros X.
  - assert (Q : existsb (text_eqb l) labels = true) by (apply existsb_exists; exists l; split; [exact X|now apply text_eqb_iff]).
    congruence.
  - assert (Q : existsb (text_eqb l) tl = true) by (apply existsb_exists; exists l; split; [exact X|now apply text_eqb_iff]).
    congruence.
Qed.

Section SHAPE.
Variable mp : option text.
Variable tl : list text.

Lemma lnames_render_stmts ss : lnames (flat_map (render_stmt mp) ss) = map fst (user_labels ss).
Proof. unfold lnames. now rewrite labels_render_stmts. Qed.

(* bodies: one per rendered chunk, carrying exactly the author's labels of the chunk; every rendered chunk passed the clash check *)
Lemma render_bodies_shape name G labels order : forall bodies regs,
  render_bodies mp tl name G labels order = Emitter.Ok (bodies, regs) ->
  Forall2 (fun (ib : Z * list instr) c => Datatypes.fst ib = cid c /\ lnames (Datatypes.snd ib) = ulab c) bodies (rchunks G order) /\
  Forall (fun c => clash tl labels (cstmts c) = None) (rchunks G order).
Proof.
  induction order as [|i r IH]; cbn [render_bodies]; intros bodies regs H.
  - inversion H; subst. split; constructor.
  - unfold rchunks. cbn [flat_map]. fold (rchunks G r).
    destruct (get_chunk G i) as [c|] eqn:GC; [|cbn [app]; eapply IH; eauto].
    destruct (clash tl labels (cstmts c)) as [[tk bb]|] eqn:CL; [discriminate|].
    pose proof (labels_render_branch mp name c (match r with n :: _ => n | [] => (-1)%Z end)) as HB.
    destruct (render_branch mp name c _) as [[b0 regs0] fall]. cbn [Datatypes.fst] in HB.
    destruct (render_bodies mp tl name G labels r) as [[rest regs']| | | |] eqn:E; try discriminate.
    inversion H; subst. destruct (IH _ _ eq_refl) as [I1 I2]. cbn [app]. split.
    + constructor; [|exact I1]. cbn [Datatypes.fst Datatypes.snd]. split; [symmetry; eapply get_chunk_cid'; eauto|].
      rewrite !lnames_app, lnames_render_stmts. unfold lnames at 1. rewrite HB. cbn [map app].
      destruct fall; cbn; rewrite ?app_nil_r; reflexivity.
    + constructor; [exact CL|exact I2].
Qed.

(* the header written in front of a body *)
Definition header (name : text) (glob : bool) (regs : list Z) (i : Z) : list instr :=
  if Z.eqb i 0 then [ILabel name glob] else if zmem i regs then [ILabel (lbl name i) false] else [].

Lemma lnames_header name glob regs c :
  lnames (header name glob regs (cid c)) = [] \/ lnames (header name glob regs (cid c)) = [chunk_label name c].
Proof.
  unfold header, chunk_label. destruct (Z.eqb (cid c) 0); [now right|]. destruct (zmem (cid c) regs); [now right|now left].
Qed.

Lemma lnames_bodies name glob regs bodies cs :
  Forall2 (fun (ib : Z * list instr) c => Datatypes.fst ib = cid c /\ lnames (Datatypes.snd ib) = ulab c) bodies cs ->
  lnames (flat_map (fun '(i, b) => header name glob regs i ++ b) bodies) =
  flat_map (fun c => lnames (header name glob regs (cid c)) ++ ulab c) cs.
Proof.
  induction 1 as [|[i b] c bodies cs [H1 H2] _ IH]; [reflexivity|]. cbn [Datatypes.fst Datatypes.snd] in *.
  cbn [flat_map]. rewrite !lnames_app, IH, H2, H1. reflexivity.
Qed.

(* the label names of a rendered script, in order *)
Theorem render_chunks_lnames name glob G order code :
  render_chunks mp tl name glob G order = Emitter.Ok code ->
  exists regs,
    lnames code = flat_map (fun c => lnames (header name glob regs (cid c)) ++ ulab c) (rchunks G order) /\
    Forall (fun c => clash tl (map (chunk_label name) G) (cstmts c) = None) (rchunks G order).
Proof.
  unfold render_chunks. destruct (render_bodies mp tl name G _ order) as [[bodies regs]| | | |] eqn:E; try discriminate.
  intros H; inversion H; subst; clear H. exists regs.
  destruct (render_bodies_shape _ _ _ _ _ _ E) as [S1 S2]. split; [|exact S2].
  apply (lnames_bodies name glob regs bodies _ S1).
Qed.

(* ---------- 4. the theorem ---------- *)
(* stronger form: the chunk ids of the graph need not be distinct (get_chunk finds the first chunk of an id, and two
   different entries of the order find chunks with different ids) *)
Theorem rendered_labels_distinct_strong :
  forall name glob G order code,
    render_chunks mp tl name glob G order = Emitter.Ok code ->
    NoDup order ->
    (forall d, In d order -> (0 <= d < 10 ^ 40)%Z) ->
    NoDup (chunk_labels G) ->
    NoDup (lnames code).
Proof.
  intros name glob G order code HR ND RG NL.
  destruct (render_chunks_lnames _ _ _ _ _ HR) as (regs & E & CL). rewrite E. clear E.
  pose proof (rchunks_nodup G order ND) as NC.
  rewrite Forall_forall in CL.
  apply (nodup_layout (fun c => lnames (header name glob regs (cid c))) ulab (chunk_label name)).
  - intros c _. apply lnames_header.
  - apply (NoDup_map_transfer cid (chunk_label name) _ NC).
    intros a b Ha Hb. apply rchunks_in in Ha, Hb. apply chunk_label_inj; apply RG; tauto.
  - rewrite chunk_labels_ulab in NL. apply (flat_map_nodup_sub ulab G); [exact NL| |].
    + eapply NoDup_map_inv; exact NC.
    + intros c Hc. apply rchunks_in in Hc. tauto.
  - intros c c' x Hc Hc' Hx E. pose proof (clash_none _ _ _ (CL c Hc) x Hx) as [K _].
    apply K. rewrite E. apply in_map. apply rchunks_in in Hc'. tauto.
Qed.
End SHAPE.

Theorem rendered_labels_distinct :
  forall mp tl name glob G order code,
    render_chunks mp tl name glob G order = Emitter.Ok code ->
    NoDup order ->
    NoDup (map cid G) ->
    (forall d, In d order -> (0 <= d < 10 ^ 40)%Z) ->          (* decimal printing in the model has 40 digits of fuel *)
    NoDup (chunk_labels G) ->                                   (* the author's labels are pairwise distinct *)
    NoDup (lnames code).
Proof. intros mp tl name glob G order code HR ND _ RG NL. eapply rendered_labels_distinct_strong; eauto. Qed.

(* ---------- the executable form ---------- *)
Lemma nodupt_complete l : NoDup l -> nodupt l = true.
Proof.
  induction 1 as [|x r N1 _ IH]; [reflexivity|]. cbn [nodupt]. rewrite IH, andb_true_r.
  destruct (existsb (text_eqb x) r) eqn:E; [|reflexivity]. exfalso. apply N1.
  apply existsb_exists in E. destruct E as (y & Hy & Q). apply text_eqb_iff in Q. now subst.
Qed.

Lemma nodupt_iff l : nodupt l = true <-> NoDup l.
Proof. split; [apply nodupt_sound|apply nodupt_complete]. Qed.

Lemma nodupz_complete l : NoDup l -> nodupz l = true.
Proof.
  induction 1 as [|x r N1 _ IH]; [reflexivity|]. cbn [nodupz]. rewrite IH, andb_true_r.
  destruct (zmem x r) eqn:E; [|reflexivity]. exfalso. apply N1. now apply zmem_in.
Qed.

(* the conjunct  nodupt (lnames code)  of RenderCheck.wf_render *)
Theorem rendered_labels_nodupt :
  forall mp tl name glob G order code,
    render_chunks mp tl name glob G order = Emitter.Ok code ->
    NoDup order ->
    NoDup (map cid G) ->
    (forall d, In d order -> (0 <= d < 10 ^ 40)%Z) ->
    NoDup (chunk_labels G) ->
    nodupt (lnames code) = true.
Proof. intros. apply nodupt_complete. eapply rendered_labels_distinct; eauto. Qed.

(* the same with every premise executable *)
Theorem rendered_labels_nodupt_checked :
  forall mp tl name glob G order code,
    render_chunks mp tl name glob G order = Emitter.Ok code ->
    nodupz order = true ->
    forallb (fun d => (0 <=? d)%Z && (d <? 10 ^ 40)%Z) order = true ->
    nodupt (chunk_labels G) = true ->
    nodupt (lnames code) = true.
Proof.
  intros mp tl name glob G order code HR K1 K2 K3. apply nodupt_complete.
  eapply rendered_labels_distinct_strong; eauto.
  - now apply nodupz_sound.
  - intros d Hd. rewrite forallb_forall in K2. specialize (K2 d Hd). apply andb_prop in K2. destruct K2 as [A B].
    split; [apply Z.leb_le; exact A|apply Z.ltb_lt; exact B].
  - now apply nodupt_sound.
Qed.

(* ---------- the hypotheses are satisfiable: a script with an if, a loop and three labels of the author ---------- *)
Definition ex_tk : token := {| ttype := IDENT; tlit := []; tline := 1; tsb := 0; tsu := 0; teline := 1; teb := 0; teu := 0 |}.
Definition ex_cmd (s : string) : stmt := SCmd (Build_cmd (t s) [] ex_tk 0).
Definition ex_leaf : leaf :=
  {| lk := KFlag; loperand := t "FLAG_A"; lline := 1; lop := OEq; lvalue := t "TRUE"; lstrict := false; lpre := None |}.
Definition ex_body : list stmt :=
  [ SLabel (t "Start") true ex_tk; ex_cmd "lock";
    SIf [(BBin BAnd (BLeaf ex_leaf) (BLeaf ex_leaf), [SLabel (t "Inner") false ex_tk; ex_cmd "msgbox"])] (Some [ex_cmd "nop"]);
    SWhile 0 (Some (BLeaf ex_leaf)) [ex_cmd "step"];
    SLabel (t "After") false ex_tk; ex_cmd "release"; ex_cmd "end" ].

Definition ex_G : list chunk := match emit_graph ex_body with Emitter.Ok w => finals w | _ => [] end.
Definition ex_order : list Z := order_of true ex_G.
Definition ex_code : list instr :=
  match render_chunks None [] (t "Main") true ex_G ex_order with Emitter.Ok c => c | _ => [] end.

Example hypotheses_satisfiable :
  emit_script None [] (t "Main") true true ex_body = Emitter.Ok ex_code /\
  render_chunks None [] (t "Main") true ex_G ex_order = Emitter.Ok ex_code /\
  NoDup ex_order /\ NoDup (map cid ex_G) /\ (forall d, In d ex_order -> (0 <= d < 10 ^ 40)%Z) /\ NoDup (chunk_labels ex_G) /\
  List.length ex_G = 11%nat /\
  lnames ex_code = [t "Main"; t "Start"; t "Main_3"; t "Main_1"; t "Main_8"; t "After"; t "Main_2"; t "Inner"; t "Main_4"; t "Main_9"].
Proof.
  split; [vm_compute; reflexivity|]. split; [vm_compute; reflexivity|].
  split; [apply nodupz_sound; vm_compute; reflexivity|].
  split; [apply nodupz_sound; vm_compute; reflexivity|].
  split.
  { assert (Q : forallb (fun d => (0 <=? d)%Z && (d <? 10 ^ 40)%Z) ex_order = true) by (vm_compute; reflexivity).
    rewrite forallb_forall in Q. intros d Hd. specialize (Q d Hd). apply andb_prop in Q. destruct Q as [A B].
    split; [apply Z.leb_le; exact A|apply Z.ltb_lt; exact B]. }
  split; [apply nodupt_sound; vm_compute; reflexivity|].
  split; vm_compute; reflexivity.
Qed.

(* the theorem applied to the example *)
Example ex_labels_distinct : NoDup (lnames ex_code).
Proof.
  destruct hypotheses_satisfiable as (_ & R & H1 & H2 & H3 & H4 & _).
  exact (rendered_labels_distinct _ _ _ _ _ _ _ R H1 H2 H3 H4).
Qed.
