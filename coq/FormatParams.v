(* C07 - the PARAMETERS of format(): which font, maxLineLength, numLines, cursorOverlapWidth and widths table a
   `format(...)` call of the source passes to format_text  (Go: parser/parser.go parseFormatStringOperator; model:
   Format.parse_format fc cli_font cli_maxlen ee, fc = font config, cli_font = -f option, cli_maxlen = -l option,
   ee = environment errors on (false = lint mode)).  Properties_C07.v says what format_text does for GIVEN parameters;
   this file says which parameters a call gives it.  Everything is about the model's own functions; the only
   definitions added are the grammar (relations over tokens), the record `written` (what the call writes) and the
   `chosen_*` functions that name the parameters in the statements.

   THE GRAMMAR (PART 2), relations over token lists:
     CALL       ::= 'format' '(' [STRINGTYPE] STRING PARAMS ')'                       format_call l rp ttok sty w
     PARAMS     ::= (nothing) | ',' POSITIONAL | ',' POSITIONAL ',' NAMED | ',' NAMED(non-empty)       params ps w
     POSITIONAL ::= STRING | STRING ',' INT | INT | INT ',' STRING                    positional l both spec w
     NAMED      ::= { name '=' VALUE [','] }   name one of fontId maxLineLength numLines cursorOverlapWidth, not
                    specified before, VALUE a STRING for fontId and an INT otherwise  named_seq spec w l spec' w'
   w : written records the font-id TOKEN and the three integers the call writes (pint = strconv.ParseInt with the error ignored: 0 on a syntax error, saturated on a range error).
   Quirks of the code that the grammar reproduces: the comma between named parameters is optional; `, )` is accepted
   after two positional parameters (and after a named one) but not after one; only the FIRST positional parameter
   counts as "specified": the second one may be given again by name, and the name wins (Ex2).

   MAIN STATEMENTS
   parse_format_call          a call of the grammar followed by any tokens R: parse_format consumes exactly the call
                              (returns the stream rp :: R at its ')'), returns the text token, the string type and
                              format_text fc text (chosen_max w) (chosen_cursor w) (chosen_font w) (chosen_lines w); when
                              format_text rejects the font id: error "unknown fontID" (ee) or the EMPTY text (lint).
   chosen_parameters_spec     (a) font id = the written one (positional or fontId=), else -f if non-empty, else the
                              config's default font; every default below is read in the config entry of THAT font
                              (chosen_entry w = font_of fc (chosen_font w));
                              (b) maxLineLength = the written value if > 0; the FONT's if a value <= 0 is written;
                                  the -l value if nothing is written and -l > 0; else the font's;
                              (c) numLines = the written value if > 0, else the font's if > 0, else 2;
                              (d) cursorOverlapWidth = the written value if > 0, else the font's.
        !!  Ex.asked_precedence_is_false : the precedence "written if > 0, else -l if > 0, else font" of the task is
            FALSE of the model and of the Go code: a written 0 (or negative, or unparsable) maxLineLength hides the -l
            option and selects the font's value.  (Ex.asked_max_agrees: the two agree when the written value is > 0 or absent.)
   parse_format_reads_only_the_chosen_font / format_text_ext / get_width_entry
                              (e) the result depends on the font config only through the entry of the chosen font (and the
                              name of the default font when neither the call nor -f names one): widths table and all
                              defaults come from the font actually used, no other entry has any influence.
   params_named_value, named_seq_written, named_seq_unwritten, params_unnamed_field
                              each `name = value` of the call is what w holds for that name; a parameter not given by
                              name keeps what the positional part wrote (nothing if there is none).
   parse_format_usable_font   font id defined in the config, or "" or "TEST": Ok in both modes, text = format_text ... .
   parse_format_unknown_font  unknown font id, ee = true: error "unknown fontID" located at the written font-id token, at
                              the TEXT token when the id comes from -f / the config default (repair D18).
   parse_format_unknown_font_lint   ee = false: no error, the text returned is EMPTY.    parse_format_lint_same.
   format_error_located       the catalogue format_error l e (14 malformed shapes, each with the token the error is
                              located at: PART 9): parse_format (l ++ R) = Err e.
   format_call_or_error       every stream that starts with `format` and ends with EOF begins with a call of the grammar
                              or with a malformed shape of the catalogue (grammar + catalogue are exhaustive), hence
   parse_format_characterised, parse_format_ok_inv (CONVERSE of parse_format_call: what is accepted is a call of the
                              grammar, consumed exactly), parse_format_err_inv, parse_format_no_panic_no_fuel.
   format_call_lines_fit      joined with FormatWords.format_text_from_source: the lines of an accepted call fit
                              chosen_max pixels under the widths of the chosen font, with chosen_cursor reserved and
                              the chosen_lines discipline, and are a layout of the words of the text token.
   Examples (vm_compute on tokens produced by the model's lexer): Ex, Ex2, Ex3.
   Ex2.pint_out_of_range: an INT literal outside int64 is MaxInt64 / MinInt64 (as in Go; the model was corrected after this file found the difference). *)
From Coq Require Import List String Ascii ZArith NArith Lia Bool.
From Pory Require Import Lexer Ast Parser Format.
Import ListNotations.
Open Scope list_scope.
Local Open Scope Z_scope.

(* ====================================================================================================== *)
(* PART 0 - small facts about the token window                                                              *)
(* ====================================================================================================== *)
Lemma tt_eqb_refl a : tt_eqb a a = true.
Proof. unfold tt_eqb. destruct (toktype_eq_dec a a); [reflexivity|congruence]. Qed.
Lemma tt_eqb_neq a b : a <> b -> tt_eqb a b = false.
Proof. intros H. unfold tt_eqb. destruct (toktype_eq_dec a b); [contradiction|reflexivity]. Qed.
Lemma tt_eqb_true a b : tt_eqb a b = true -> a = b.
Proof. unfold tt_eqb. destruct (toktype_eq_dec a b); [auto|discriminate]. Qed.
Lemma tt_eqb_false a b : tt_eqb a b = false -> a <> b.
Proof. unfold tt_eqb. destruct (toktype_eq_dec a b); [discriminate|auto]. Qed.
Lemma text_eqb_refl a : text_eqb a a = true.
Proof. unfold text_eqb. destruct (list_eq_dec N.eq_dec a a); [reflexivity|congruence]. Qed.
Lemma text_eqb_neq a b : a <> b -> text_eqb a b = false.
Proof. intros H. unfold text_eqb. destruct (list_eq_dec N.eq_dec a b); [contradiction|reflexivity]. Qed.
Lemma text_eqb_true a b : text_eqb a b = true -> a = b.
Proof. unfold text_eqb. destruct (list_eq_dec N.eq_dec a b); [auto|discriminate]. Qed.
Lemma text_eqb_false a b : text_eqb a b = false -> a <> b.
Proof. unfold text_eqb. destruct (list_eq_dec N.eq_dec a b); [discriminate|auto]. Qed.

Lemma peekis_cons ty a b r : peekis ty (a :: b :: r) = tt_eqb (ttype b) ty.
Proof. reflexivity. Qed.
Lemma adv_cons a b r : adv (a :: b :: r) = b :: r.
Proof. reflexivity. Qed.
Lemma pk1_cons a b r : pk 1 (a :: b :: r) = b.
Proof. reflexivity. Qed.
Lemma pk2_cons a b c r : pk 2 (a :: b :: c :: r) = c.
Proof. reflexivity. Qed.
Lemma cur_cons a r : cur (a :: r) = a.
Proof. reflexivity. Qed.
Lemma expect_peek_cons ty a b r : expect_peek ty (a :: b :: r) = if tt_eqb (ttype b) ty then Some (b :: r) else None.
Proof. reflexivity. Qed.

Lemma mem_true x l : In x l -> mem x l = true.
Proof.
  unfold mem. intros H. apply existsb_exists. exists x. split; [exact H|apply text_eqb_refl].
Qed.
Lemma mem_false x l : ~ In x l -> mem x l = false.
Proof.
  unfold mem. intros H. destruct (existsb (text_eqb x) l) eqn:E; [|reflexivity].
  apply existsb_exists in E. destruct E as (y & I & E). apply text_eqb_true in E. subst y. contradiction.
Qed.
Lemma mem_In x l : mem x l = true -> In x l.
Proof.
  unfold mem. intros E. apply existsb_exists in E. destruct E as (y & I & E). apply text_eqb_true in E. subst y. exact I.
Qed.

(* evaluation of the token tests once the types of the tokens are known *)
Ltac tt_eval :=
  repeat match goal with
         | |- context [tt_eqb ?a ?b] =>
             let v := eval vm_compute in (tt_eqb a b) in
             lazymatch v with
             | true => change (tt_eqb a b) with true
             | false => change (tt_eqb a b) with false
             end
         end.
Ltac use_types :=
  repeat match goal with
         | H : ttype ?x = _ |- context [ttype ?x] => rewrite H
         end;
  repeat match goal with
         | H : ttype ?x <> ?T |- context [tt_eqb (ttype ?x) ?T] => rewrite (tt_eqb_neq _ _ H)
         end.
Ltac win := rewrite ?peekis_cons, ?expect_peek_cons, ?adv_cons, ?pk1_cons, ?pk2_cons, ?cur_cons; unfold is.
Ltac ev := repeat (progress (win; use_types; tt_eval; cbv beta iota; cbn [negb andb orb])).

(* ====================================================================================================== *)
(* PART 1 - parse_format cut into its stages (proof device: parse_format_eq is by reflexivity)             *)
(* ====================================================================================================== *)
Definition p_init (fc : fontcfg) (cli_font : text) (cli_maxlen : Z) : fparams :=
  {| pFont := match cli_font with [] => fcDefault fc | _ => cli_font end; pFontTok := None; pMax := cli_maxlen;
     pLines := (-1)%Z; pCursor := (-1)%Z; pSpec := [] |}.

Definition pos_part (p0 : fparams) (tsa : toks) : res (fparams * bool * bool * toks) :=
  if peekis INT tsa || peekis STRING tsa then
    if peekis STRING tsa then
      let tsc := adv tsa in
      let p1 := {| pFont := tlit (cur tsc); pFontTok := Some (cur tsc); pMax := pMax p0; pLines := pLines p0; pCursor := pCursor p0; pSpec := [t "fontId"] |} in
      do (p2, tsd) <-
         (if peekis COMMA tsc && negb (is IDENT (pk 2 tsc)) then
            let tse := adv tsc in
            match expect_peek INT tse with
            | None => err_tok (pk 1 tse) "invalid format() maxLineLength. Expected integer"
            | Some tsf => Ok ({| pFont := pFont p1; pFontTok := pFontTok p1; pMax := pint (tlit (cur tsf)); pLines := pLines p1; pCursor := pCursor p1; pSpec := pSpec p1 |}, tsf)
            end
          else Ok (p1, tsc));
      let ex := peekis COMMA tsd in
      Ok (p2, true, ex, if ex then adv tsd else tsd)
    else
      let tsc := adv tsa in
      let p1 := {| pFont := pFont p0; pFontTok := None; pMax := pint (tlit (cur tsc)); pLines := pLines p0; pCursor := pCursor p0; pSpec := [t "maxLineLength"] |} in
      do (p2, tsd) <-
         (if peekis COMMA tsc && negb (is IDENT (pk 2 tsc)) then
            let tse := adv tsc in
            match expect_peek STRING tse with
            | None => err_tok (pk 1 tse) "invalid format() fontId. Expected string"
            | Some tsf => Ok ({| pFont := tlit (cur tsf); pFontTok := Some (cur tsf); pMax := pMax p1; pLines := pLines p1; pCursor := pCursor p1; pSpec := pSpec p1 |}, tsf)
            end
          else Ok (p1, tsc));
      let ex := peekis COMMA tsd in
      Ok (p2, true, ex, if ex then adv tsd else tsd)
  else Ok (p0, false, true, tsa).

Definition params_part (p0 : fparams) (ts3 : toks) : res (fparams * toks) :=
  if peekis COMMA ts3 then
    let tsa := adv ts3 in
    do (p1, had1, expecting, tsb) <- pos_part p0 tsa;
    do (p2, had2, tsc) <- (if expecting then named_loop (S (List.length tsb)) tsb p1 had1 else Ok (p1, had1, tsb));
    if negb had2 then err_tok (pk 1 tsc) "invalid format() parameter" else Ok (p2, tsc)
  else Ok (p0, ts3).

Definition finish (fc : fontcfg) (ee : bool) (ttok : token) (sty : text) (p : fparams) (ts4 : toks) : res (token * text * text * toks) :=
  match expect_peek RPAREN ts4 with
  | None => err_tok (pk 1 ts4) "missing closing parenthesis ')' for format()"
  | Some ts5 =>
      let f := font_of fc (pFont p) in
      let maxl := if (pMax p <=? 0)%Z then fMaxLen f else pMax p in
      let nl := if (pLines p <=? 0)%Z then (if (fNumLines f <=? 0)%Z then 2%Z else fNumLines f) else pLines p in
      let cu := if (pCursor p <=? 0)%Z then fCursor f else pCursor p in
      match format_text fc (tlit ttok) maxl cu (pFont p) nl with
      | Some out => Ok (ttok, out, sty, ts5)
      | None => if ee then err_tok (match pFontTok p with Some tk => tk | None => ttok end) "unknown fontID"
                else Ok (ttok, [], sty, ts5)
      end
  end.

Lemma parse_format_eq fc cli_font cli_maxlen ee ts :
  parse_format fc cli_font cli_maxlen ee ts =
  match expect_peek LPAREN ts with
  | None => err_range (cur ts) (pk 1 ts) "format operator must begin with an open parenthesis"
  | Some ts1 =>
      let '(sty, ts2) := if peekis STRINGTYPE ts1 then (tlit (pk 1 ts1), adv ts1) else ([], ts1) in
      match expect_peek STRING ts2 with
      | None => err_tok (pk 1 ts2) "invalid format() argument. Expected a string literal"
      | Some ts3 =>
          do (p, ts4) <- params_part (p_init fc cli_font cli_maxlen) ts3;
          finish fc ee (cur ts3) sty p ts4
      end
  end.
Proof. reflexivity. Qed.

Lemma named_loop_eq f ts p had :
  named_loop (S f) ts p had =
  if negb (peekis IDENT ts) then Ok (p, had, ts) else
  let ts1 := adv ts in
  let ptk := cur ts1 in
  let name := tlit ptk in
  if negb (mem name named_params) then err_tok ptk "invalid format() named parameter" else
  match expect_peek ASSIGN ts1 with
  | None => err_tok (pk 1 ts1) "missing '=' after format() named parameter"
  | Some ts2 =>
      if mem name (pSpec p) then err_tok ptk "duplicate parameter" else
      let spec := name :: pSpec p in
      do (p', ts3) <-
         (if text_eqb name (t "fontId") then
            match expect_peek STRING ts2 with
            | None => err_tok (pk 1 ts2) "invalid fontId. Expected string"
            | Some tsx => Ok ({| pFont := tlit (cur tsx); pFontTok := Some (cur tsx); pMax := pMax p; pLines := pLines p; pCursor := pCursor p; pSpec := spec |}, tsx)
            end
          else
            match expect_peek INT ts2 with
            | None => err_tok (pk 1 ts2) "invalid parameter. Expected integer"
            | Some tsx =>
                let v := pint (tlit (cur tsx)) in
                if text_eqb name (t "maxLineLength") then Ok ({| pFont := pFont p; pFontTok := pFontTok p; pMax := v; pLines := pLines p; pCursor := pCursor p; pSpec := spec |}, tsx)
                else if text_eqb name (t "numLines") then Ok ({| pFont := pFont p; pFontTok := pFontTok p; pMax := pMax p; pLines := v; pCursor := pCursor p; pSpec := spec |}, tsx)
                else Ok ({| pFont := pFont p; pFontTok := pFontTok p; pMax := pMax p; pLines := pLines p; pCursor := v; pSpec := spec |}, tsx)
            end);
      if peekis COMMA ts3 then
        let ts4 := adv ts3 in
        if negb (peekis IDENT ts4 || peekis RPAREN ts4) then err_tok (pk 1 ts4) "invalid parameter. Expected named parameter"
        else named_loop f ts4 p' true
      else named_loop f ts3 p' true
  end.
Proof. reflexivity. Qed.

(* ====================================================================================================== *)
(* PART 2 - the source grammar of a format(...) call, as relations over tokens                             *)
(* ====================================================================================================== *)
(* what the call WRITES: the font-id token, and the three integers (already converted by pint = strconv.ParseInt with the error ignored) *)
Record written := { wFont : option token; wMax : option Z; wLines : option Z; wCursor : option Z }.
Definition w0 : written := {| wFont := None; wMax := None; wLines := None; wCursor := None |}.

(* the type of the value token a named parameter takes, and what writing it records *)
Definition value_type (name : text) : toktype := if text_eqb name (t "fontId") then STRING else INT.
Definition write (name : text) (v : token) (w : written) : written :=
  if text_eqb name (t "fontId") then {| wFont := Some v; wMax := wMax w; wLines := wLines w; wCursor := wCursor w |}
  else if text_eqb name (t "maxLineLength") then {| wFont := wFont w; wMax := Some (pint (tlit v)); wLines := wLines w; wCursor := wCursor w |}
  else if text_eqb name (t "numLines") then {| wFont := wFont w; wMax := wMax w; wLines := Some (pint (tlit v)); wCursor := wCursor w |}
  else {| wFont := wFont w; wMax := wMax w; wLines := wLines w; wCursor := Some (pint (tlit v)) |}.

Inductive opt_comma : list token -> Prop :=
| OC_none : opt_comma []
| OC_some c : ttype c = COMMA -> opt_comma [c].

(* NAMED ::= { IDENT '=' VALUE [','] }   - the identifier is one of the four names, not specified before ([spec] = the names
   specified so far), the value is a STRING for fontId and an INT otherwise.  The comma between two named parameters is
   optional (so is a trailing comma). *)
Inductive named_seq : list text -> written -> list token -> list text -> written -> Prop :=
| NS_nil spec w : named_seq spec w [] spec w
| NS_item spec w id eq v sep l spec' w' :
    ttype id = IDENT -> In (tlit id) named_params -> ~ In (tlit id) spec ->
    ttype eq = ASSIGN -> ttype v = value_type (tlit id) -> opt_comma sep ->
    named_seq (tlit id :: spec) (write (tlit id) v w) l spec' w' ->
    named_seq spec w (id :: eq :: v :: sep ++ l) spec' w'.

(* POSITIONAL ::= STRING | STRING ',' INT | INT | INT ',' STRING     (the bool: both positional parameters are present).
   Only the FIRST positional parameter is recorded as "specified" (the second may be given again by name). *)
Inductive positional : list token -> bool -> list text -> written -> Prop :=
| Pos_font s : ttype s = STRING ->
    positional [s] false [t "fontId"] {| wFont := Some s; wMax := None; wLines := None; wCursor := None |}
| Pos_font_max s c i : ttype s = STRING -> ttype c = COMMA -> ttype i = INT ->
    positional [s; c; i] true [t "fontId"] {| wFont := Some s; wMax := Some (pint (tlit i)); wLines := None; wCursor := None |}
| Pos_max i : ttype i = INT ->
    positional [i] false [t "maxLineLength"] {| wFont := None; wMax := Some (pint (tlit i)); wLines := None; wCursor := None |}
| Pos_max_font i c s : ttype i = INT -> ttype c = COMMA -> ttype s = STRING ->
    positional [i; c; s] true [t "maxLineLength"] {| wFont := Some s; wMax := Some (pint (tlit i)); wLines := None; wCursor := None |}.

(* PARAMS ::= (nothing) | ',' POSITIONAL | ',' POSITIONAL ',' NAMED | ',' NAMED(non-empty)
   after a single positional parameter and a comma at least one named parameter must follow
   (after two, `, )` is accepted) *)
Inductive params : list token -> written -> Prop :=
| P_none : params [] w0
| P_pos c l both spec w : ttype c = COMMA -> positional l both spec w -> params (c :: l) w
| P_pos_named c l both spec w c2 ln spec' w' :
    ttype c = COMMA -> positional l both spec w -> ttype c2 = COMMA -> named_seq spec w ln spec' w' ->
    (both = true \/ ln <> []) -> params (c :: l ++ c2 :: ln) w'
| P_named c ln spec' w' : ttype c = COMMA -> named_seq [] w0 ln spec' w' -> ln <> [] -> params (c :: ln) w'.

(* STYPE ::= (nothing) | STRINGTYPE *)
Inductive stype_opt : list token -> text -> Prop :=
| ST_none : stype_opt [] []
| ST_some st : ttype st = STRINGTYPE -> stype_opt [st] (tlit st).

(* CALL ::= 'format' '(' STYPE STRING PARAMS ')'   -   format_call l rp ttok sty w : the tokens l, closed by rp, are a call
   with text token ttok, string type sty, writing w *)
Inductive format_call : list token -> token -> token -> text -> written -> Prop :=
| FC fmt lp styl sty str ps w rp :
    ttype fmt = FORMAT -> ttype lp = LPAREN -> stype_opt styl sty -> ttype str = STRING -> params ps w -> ttype rp = RPAREN ->
    format_call (fmt :: lp :: styl ++ str :: ps ++ [rp]) rp str sty w.

(* ====================================================================================================== *)
(* PART 3 - the named-parameter loop on a NAMED sequence                                                    *)
(* ====================================================================================================== *)
(* the parameter record after writing w over the initial one *)
Definition upd (p0 : fparams) (w : written) (spec : list text) : fparams :=
  {| pFont := match wFont w with Some tk => tlit tk | None => pFont p0 end;
     pFontTok := match wFont w with Some tk => Some tk | None => pFontTok p0 end;
     pMax := match wMax w with Some v => v | None => pMax p0 end;
     pLines := match wLines w with Some v => v | None => pLines p0 end;
     pCursor := match wCursor w with Some v => v | None => pCursor p0 end;
     pSpec := spec |}.

(* "with enough fuel the loop returns r" (the fuel parse_format gives is the length of the stream + 1) *)
Definition NL (ts : toks) (p : fparams) (had : bool) (r : res (fparams * bool * toks)) : Prop :=
  forall f, (List.length ts <= f)%nat -> named_loop f ts p had = r.

Ltac text_eval :=
  repeat match goal with
         | |- context [text_eqb (t ?a) (t ?b)] =>
             let v := eval vm_compute in (text_eqb (t a) (t b)) in
             lazymatch v with
             | true => change (text_eqb (t a) (t b)) with true
             | false => change (text_eqb (t a) (t b)) with false
             end
         end.

Definition follow (z : token) : Prop := ttype z = IDENT \/ ttype z = RPAREN.
Lemma follow_not_comma z : follow z -> ttype z <> COMMA.
Proof. intros [H|H]; rewrite H; discriminate. Qed.

Lemma NL_end c y rest p had : ttype y <> IDENT -> NL (c :: y :: rest) p had (Ok (p, had, c :: y :: rest)).
Proof.
  intros H f Hf. destruct f as [|f]; [cbn in Hf; lia|]. rewrite named_loop_eq. ev. reflexivity.
Qed.

Ltac named_cases Hin Hv :=
  destruct Hin as [E|[E|[E|[E|[]]]]]; rewrite <- E in *; unfold value_type in Hv; vm_compute in Hv.

Lemma NL_item p0 w spec c id eq v y rest had r :
  ttype id = IDENT -> In (tlit id) named_params -> ~ In (tlit id) spec -> ttype eq = ASSIGN -> ttype v = value_type (tlit id) ->
  ttype y <> COMMA ->
  NL (v :: y :: rest) (upd p0 (write (tlit id) v w) (tlit id :: spec)) true r ->
  NL (c :: id :: eq :: v :: y :: rest) (upd p0 w spec) had r.
Proof.
  intros Hid Hin Hns Heq Hv Hy H f Hf. destruct f as [|f]; [cbn in Hf; lia|].
  assert (Hf' : (List.length (v :: y :: rest) <= f)%nat) by (cbn [List.length] in *; lia).
  specialize (H f Hf'). rewrite named_loop_eq. ev. cbv zeta. ev.
  rewrite (mem_true _ _ Hin). cbn [negb]. ev. cbn [upd pSpec]. rewrite (mem_false _ _ Hns).
  named_cases Hin Hv; text_eval; cbv beta iota; ev; exact H.
Qed.

Lemma NL_item_comma p0 w spec c id eq v y z rest had r :
  ttype id = IDENT -> In (tlit id) named_params -> ~ In (tlit id) spec -> ttype eq = ASSIGN -> ttype v = value_type (tlit id) ->
  ttype y = COMMA -> follow z ->
  NL (y :: z :: rest) (upd p0 (write (tlit id) v w) (tlit id :: spec)) true r ->
  NL (c :: id :: eq :: v :: y :: z :: rest) (upd p0 w spec) had r.
Proof.
  intros Hid Hin Hns Heq Hv Hy Hz H f Hf. destruct f as [|f]; [cbn in Hf; lia|].
  assert (Hf' : (List.length (y :: z :: rest) <= f)%nat) by (cbn [List.length] in *; lia).
  specialize (H f Hf'). rewrite named_loop_eq. ev. cbv zeta. ev.
  rewrite (mem_true _ _ Hin). cbn [negb]. ev. cbn [upd pSpec]. rewrite (mem_false _ _ Hns).
  assert (Z : tt_eqb (ttype z) IDENT || tt_eqb (ttype z) RPAREN = true)
    by (destruct Hz as [Hz|Hz]; rewrite Hz; reflexivity).
  named_cases Hin Hv; text_eval; cbv beta iota; ev; rewrite Z; cbn [negb]; exact H.
Qed.

(* the last token of c :: l *)
Fixpoint lastof (c : token) (l : list token) : token := match l with [] => c | x :: r => lastof x r end.
Definition nonnil {A} (l : list A) : bool := match l with [] => false | _ => true end.

Lemma named_seq_head spec w l spec' w' z rest :
  named_seq spec w l spec' w' -> follow z -> exists y rest', l ++ z :: rest = y :: rest' /\ follow y.
Proof.
  intros H Hz. destruct H as [spec w|spec w id eq v sep l spec' w' Hid].
  - exists z, rest. split; [reflexivity|exact Hz].
  - exists id. eexists. split; [reflexivity|left; exact Hid].
Qed.

(* a NAMED sequence followed by an identifier or ')' is consumed by the loop *)
Lemma NL_prefix p0 spec w ln spec' w' :
  named_seq spec w ln spec' w' -> forall z rest, follow z -> forall c had r,
  NL (lastof c ln :: z :: rest) (upd p0 w' spec') (had || nonnil ln) r ->
  NL (c :: ln ++ z :: rest) (upd p0 w spec) had r.
Proof.
  induction 1 as [spec w|spec w id eq v sep l spec' w' Hid Hin Hns Heq Hv Hsep Hl IH]; intros z rest Hz c had r H.
  - cbn [lastof nonnil app] in *. rewrite orb_false_r in H. exact H.
  - cbn [nonnil] in H. rewrite orb_true_r in H.
    destruct (named_seq_head _ _ _ _ _ z rest Hl Hz) as (y & rest' & E & Fy).
    destruct Hsep as [|k Hk].
    + cbn [app lastof] in *.
      specialize (IH z rest Hz v true r H). rewrite E in *.
      eapply NL_item; try eassumption. apply follow_not_comma, Fy.
    + cbn [app lastof] in *.
      specialize (IH z rest Hz k true r H). rewrite E in *.
      eapply NL_item_comma; try eassumption.
Qed.

Lemma NL_all p0 spec w ln spec' w' c rp R had :
  named_seq spec w ln spec' w' -> ttype rp = RPAREN ->
  NL (c :: ln ++ rp :: R) (upd p0 w spec) had (Ok (upd p0 w' spec', had || nonnil ln, lastof c ln :: rp :: R)).
Proof.
  intros H Hrp. eapply NL_prefix; [exact H|right; exact Hrp|]. apply NL_end. rewrite Hrp. discriminate.
Qed.

(* ====================================================================================================== *)
(* PART 4 - the positional parameters, the parameter list, the whole call                                   *)
(* ====================================================================================================== *)
Section INIT.
Variable fc : fontcfg.
Variable cli_font : text.
Variable cli_maxlen : Z.
Notation P0 := (p_init fc cli_font cli_maxlen).

Lemma pos_part_none p0 c y rest :
  ttype y <> INT -> ttype y <> STRING -> pos_part p0 (c :: y :: rest) = Ok (p0, false, true, c :: y :: rest).
Proof. intros H1 H2. unfold pos_part. ev. reflexivity. Qed.

Lemma pos_part_end l both spec w c y rest :
  positional l both spec w -> ttype y <> COMMA ->
  pos_part P0 (c :: l ++ y :: rest) = Ok (upd P0 w spec, true, false, lastof c l :: y :: rest).
Proof.
  intros H Hy. destruct H; cbn [app lastof]; unfold pos_part; ev; cbv zeta; ev; reflexivity.
Qed.

Lemma pos_part_more l both spec w c c2 y rest :
  positional l both spec w -> ttype c2 = COMMA -> (both = true \/ ttype y = IDENT) ->
  pos_part P0 (c :: l ++ c2 :: y :: rest) = Ok (upd P0 w spec, true, true, c2 :: y :: rest).
Proof.
  intros H Hc Hy. destruct H; cbn [app lastof]; unfold pos_part; ev; cbv zeta; ev;
    try (destruct Hy as [Hy|Hy]; [discriminate Hy|]); ev; reflexivity.
Qed.

Lemma named_seq_nonnil_head spec w l spec' w' : named_seq spec w l spec' w' -> l <> [] -> exists id l', l = id :: l' /\ ttype id = IDENT.
Proof. intros H N. destruct H; [congruence|]. eexists. eexists. split; [reflexivity|assumption]. Qed.

Lemma params_part_ok ps w str rp R :
  params ps w -> ttype rp = RPAREN ->
  exists spec c', params_part P0 (str :: ps ++ rp :: R) = Ok (upd P0 w spec, c' :: rp :: R).
Proof.
  intros H Hrp. destruct H as [|c l both spec w Hc Hl|c l both spec w c2 ln spec' w' Hc Hl Hc2 Hn Hb|c ln spec' w' Hc Hn Hne].
  - exists [], str. cbn [app]. unfold params_part. ev. reflexivity.
  - exists spec, (lastof c l). cbn [app]. unfold params_part. ev. cbv zeta.
    rewrite (pos_part_end _ _ _ _ c rp R Hl) by (rewrite Hrp; discriminate). reflexivity.
  - exists spec', (lastof c2 ln). cbn [app]. rewrite <- app_assoc. cbn [app]. unfold params_part. ev. cbv zeta.
    destruct (named_seq_head _ _ _ _ _ rp R Hn (or_intror Hrp)) as (y & rest' & E & Fy).
    assert (Hy : both = true \/ ttype y = IDENT).
    { destruct Hb as [Hb|Hb]; [left; exact Hb|right].
      destruct (named_seq_nonnil_head _ _ _ _ _ Hn Hb) as (id & l' & -> & Hid). cbn [app] in E. inversion E. subst. exact Hid. }
    rewrite E. rewrite (pos_part_more _ _ _ _ c c2 y rest' Hl Hc2 Hy). rewrite <- E.
    rewrite (NL_all P0 _ _ _ _ _ c2 rp R true Hn Hrp) by lia. cbn [orb negb]. reflexivity.
  - exists spec', (lastof c ln). cbn [app]. unfold params_part. ev. cbv zeta.
    destruct (named_seq_nonnil_head _ _ _ _ _ Hn Hne) as (id & l' & E & Hid).
    rewrite E at 1. cbn [app]. rewrite pos_part_none by (rewrite Hid; discriminate). change (id :: l' ++ rp :: R) with ((id :: l') ++ rp :: R). rewrite <- E.
    change P0 with (upd P0 w0 []) at 1.
    rewrite (NL_all P0 _ _ _ _ _ c rp R false Hn Hrp) by lia.
    destruct ln; [congruence|]. cbn [orb nonnil negb]. reflexivity.
Qed.
End INIT.

(* ====================================================================================================== *)
(* PART 5 - MAIN THEOREM: what an accepted call passes to format_text                                       *)
(* ====================================================================================================== *)
Section CALL.
Variable fc : fontcfg.          (* the font config file *)
Variable cli_font : text.       (* -f option ("" = not given) *)
Variable cli_maxlen : Z.        (* -l option (0 = not given) *)

(* (a) the font id: the written one (positional or fontId=), else the -f option if non-empty, else the config's default font *)
Definition chosen_font (w : written) : text :=
  match wFont w with
  | Some tk => tlit tk
  | None => match cli_font with [] => fcDefault fc | _ => cli_font end
  end.
(* the config entry of THAT font (all fields 0 and no widths when the config has no such font) *)
Definition chosen_entry (w : written) : font := font_of fc (chosen_font w).
(* (b) maxLineLength: the written value if there is one, else the -l option; when that number is <= 0, the maxLineLength of the
   chosen font's config entry.  NOTE: a written value <= 0 falls back to the font config, NOT to the -l option. *)
Definition chosen_max (w : written) : Z :=
  let v := match wMax w with Some v => v | None => cli_maxlen end in
  if (v <=? 0)%Z then fMaxLen (chosen_entry w) else v.
(* (c) numLines: the written value if > 0, else the chosen font's numLines if > 0, else 2 *)
Definition chosen_lines (w : written) : Z :=
  let v := match wLines w with Some v => v | None => (-1)%Z end in
  if (v <=? 0)%Z then (if (fNumLines (chosen_entry w) <=? 0)%Z then 2%Z else fNumLines (chosen_entry w)) else v.
(* (d) cursorOverlapWidth: the written value if > 0, else the chosen font's *)
Definition chosen_cursor (w : written) : Z :=
  let v := match wCursor w with Some v => v | None => (-1)%Z end in
  if (v <=? 0)%Z then fCursor (chosen_entry w) else v.

(* the result of a call: format_text with the chosen parameters; when format_text rejects the font id: an error at the
   written font-id token (at the text token when the id comes from -f or the config) - or, without environment errors
   (lint mode), the EMPTY text *)
Definition call_result (ee : bool) (ttok : token) (sty : text) (w : written) (rest : toks) : res (token * text * text * toks) :=
  match format_text fc (tlit ttok) (chosen_max w) (chosen_cursor w) (chosen_font w) (chosen_lines w) with
  | Some out => Ok (ttok, out, sty, rest)
  | None => if ee then err_tok (match wFont w with Some tk => tk | None => ttok end) "unknown fontID"
            else Ok (ttok, [], sty, rest)
  end.

Theorem parse_format_call ee l rp ttok sty w R :
  format_call l rp ttok sty w ->
  parse_format fc cli_font cli_maxlen ee (l ++ R) = call_result ee ttok sty w (rp :: R).
Proof.
  intros H. destruct H as [fmt lp styl sty str ps w rp Hfmt Hlp Hst Hstr Hps Hrp].
  rewrite parse_format_eq. repeat (first [rewrite <- app_assoc | progress cbn [app]]).
  destruct (params_part_ok fc cli_font cli_maxlen ps w str rp R Hps Hrp) as (spec & c' & E).
  destruct Hst as [|st Hst]; cbn [app]; ev; rewrite E; unfold finish; ev; cbv zeta; unfold call_result, chosen_max, chosen_lines, chosen_cursor, chosen_entry, chosen_font; cbn [upd p_init pFont pFontTok pMax pLines pCursor]; destruct (wFont w); reflexivity.
Qed.
End CALL.

(* ====================================================================================================== *)
(* PART 6 - the chosen parameters, read off (a) (b) (c) (d)                                                 *)
(* ====================================================================================================== *)
Section CHOICE.
Variable fc : fontcfg.
Variable cli_font : text.
Variable cli_maxlen : Z.
Notation chosen_font := (chosen_font fc cli_font).
Notation chosen_entry := (chosen_entry fc cli_font).
Notation chosen_max := (chosen_max fc cli_font cli_maxlen).
Notation chosen_lines := (chosen_lines fc cli_font).
Notation chosen_cursor := (chosen_cursor fc cli_font).

(* (a) *)
Lemma chosen_font_written w tk : wFont w = Some tk -> chosen_font w = tlit tk.
Proof. intros H. unfold FormatParams.chosen_font. rewrite H. reflexivity. Qed.
Lemma chosen_font_cli w : wFont w = None -> cli_font <> [] -> chosen_font w = cli_font.
Proof. intros H N. unfold FormatParams.chosen_font. rewrite H. destruct cli_font; [congruence|reflexivity]. Qed.
Lemma chosen_font_default w : wFont w = None -> cli_font = [] -> chosen_font w = fcDefault fc.
Proof. intros H N. unfold FormatParams.chosen_font. rewrite H, N. reflexivity. Qed.

(* (b) *)
Lemma chosen_max_written w v : wMax w = Some v -> (0 < v)%Z -> chosen_max w = v.
Proof. intros H L. unfold FormatParams.chosen_max. rewrite H. cbv zeta. destruct (Z.leb_spec v 0); [lia|reflexivity]. Qed.
(* a written maxLineLength <= 0 (e.g. `maxLineLength=0`) selects the FONT's value, whatever the -l option says *)
Lemma chosen_max_written_nonpositive w v : wMax w = Some v -> (v <= 0)%Z -> chosen_max w = fMaxLen (chosen_entry w).
Proof. intros H L. unfold FormatParams.chosen_max. rewrite H. cbv zeta. destruct (Z.leb_spec v 0); [reflexivity|lia]. Qed.
Lemma chosen_max_cli w : wMax w = None -> (0 < cli_maxlen)%Z -> chosen_max w = cli_maxlen.
Proof. intros H L. unfold FormatParams.chosen_max. rewrite H. cbv zeta. destruct (Z.leb_spec cli_maxlen 0); [lia|reflexivity]. Qed.
Lemma chosen_max_config w : wMax w = None -> (cli_maxlen <= 0)%Z -> chosen_max w = fMaxLen (chosen_entry w).
Proof. intros H L. unfold FormatParams.chosen_max. rewrite H. cbv zeta. destruct (Z.leb_spec cli_maxlen 0); [reflexivity|lia]. Qed.

(* (c) *)
Lemma chosen_lines_written w v : wLines w = Some v -> (0 < v)%Z -> chosen_lines w = v.
Proof. intros H L. unfold FormatParams.chosen_lines. rewrite H. cbv zeta. destruct (Z.leb_spec v 0); [lia|reflexivity]. Qed.
Lemma chosen_lines_config w :
  (wLines w = None \/ exists v, wLines w = Some v /\ (v <= 0)%Z) -> (0 < fNumLines (chosen_entry w))%Z ->
  chosen_lines w = fNumLines (chosen_entry w).
Proof.
  intros H L. unfold FormatParams.chosen_lines. destruct H as [H|(v & H & Hv)]; rewrite H; cbv zeta.
  - cbn. destruct (Z.leb_spec (fNumLines (chosen_entry w)) 0); [lia|reflexivity].
  - destruct (Z.leb_spec v 0); [|lia]. destruct (Z.leb_spec (fNumLines (chosen_entry w)) 0); [lia|reflexivity].
Qed.
Lemma chosen_lines_two w :
  (wLines w = None \/ exists v, wLines w = Some v /\ (v <= 0)%Z) -> (fNumLines (chosen_entry w) <= 0)%Z ->
  chosen_lines w = 2%Z.
Proof.
  intros H L. unfold FormatParams.chosen_lines. destruct H as [H|(v & H & Hv)]; rewrite H; cbv zeta.
  - cbn. destruct (Z.leb_spec (fNumLines (chosen_entry w)) 0); [reflexivity|lia].
  - destruct (Z.leb_spec v 0); [|lia]. destruct (Z.leb_spec (fNumLines (chosen_entry w)) 0); [reflexivity|lia].
Qed.

(* (d) *)
Lemma chosen_cursor_written w v : wCursor w = Some v -> (0 < v)%Z -> chosen_cursor w = v.
Proof. intros H L. unfold FormatParams.chosen_cursor. rewrite H. cbv zeta. destruct (Z.leb_spec v 0); [lia|reflexivity]. Qed.
Lemma chosen_cursor_config w :
  (wCursor w = None \/ exists v, wCursor w = Some v /\ (v <= 0)%Z) -> chosen_cursor w = fCursor (chosen_entry w).
Proof.
  intros H. unfold FormatParams.chosen_cursor. destruct H as [H|(v & H & Hv)]; rewrite H; cbv zeta; [reflexivity|].
  destruct (Z.leb_spec v 0); [reflexivity|lia].
Qed.

(* all of (a)-(d) in one statement *)
Theorem chosen_parameters_spec w :
  (* (a) *)
  (forall tk, wFont w = Some tk -> chosen_font w = tlit tk) /\
  (wFont w = None -> cli_font <> [] -> chosen_font w = cli_font) /\
  (wFont w = None -> cli_font = [] -> chosen_font w = fcDefault fc) /\
  (* every default is read in the config entry of the CHOSEN font *)
  chosen_entry w = font_of fc (chosen_font w) /\
  (* (b) *)
  (forall v, wMax w = Some v -> (0 < v)%Z -> chosen_max w = v) /\
  (forall v, wMax w = Some v -> (v <= 0)%Z -> chosen_max w = fMaxLen (chosen_entry w)) /\
  (wMax w = None -> (0 < cli_maxlen)%Z -> chosen_max w = cli_maxlen) /\
  (wMax w = None -> (cli_maxlen <= 0)%Z -> chosen_max w = fMaxLen (chosen_entry w)) /\
  (* (c) *)
  (forall v, wLines w = Some v -> (0 < v)%Z -> chosen_lines w = v) /\
  ((wLines w = None \/ exists v, wLines w = Some v /\ (v <= 0)%Z) ->
     chosen_lines w = if (fNumLines (chosen_entry w) <=? 0)%Z then 2%Z else fNumLines (chosen_entry w)) /\
  (* (d) *)
  (forall v, wCursor w = Some v -> (0 < v)%Z -> chosen_cursor w = v) /\
  ((wCursor w = None \/ exists v, wCursor w = Some v /\ (v <= 0)%Z) -> chosen_cursor w = fCursor (chosen_entry w)).
Proof.
  split; [apply chosen_font_written|]. split; [apply chosen_font_cli|]. split; [apply chosen_font_default|].
  split; [reflexivity|]. split; [apply chosen_max_written|]. split; [apply chosen_max_written_nonpositive|].
  split; [apply chosen_max_cli|]. split; [apply chosen_max_config|]. split; [apply chosen_lines_written|].
  split.
  { intros H. destruct (Z.leb_spec (fNumLines (chosen_entry w)) 0); [apply chosen_lines_two|apply chosen_lines_config]; assumption. }
  split; [apply chosen_cursor_written|apply chosen_cursor_config].
Qed.
End CHOICE.

(* ====================================================================================================== *)
(* PART 7 - known / unknown font id, lint mode; (e) only the chosen font's config entry matters            *)
(* ====================================================================================================== *)
(* format_text rejects exactly the non-empty font ids, other than "TEST", that the config does not define *)
Lemma format_text_none_iff fc txt maxW cursor id nl :
  format_text fc txt maxW cursor id nl = None <-> (font_valid fc id = false /\ id <> [] /\ id <> testFontID).
Proof.
  unfold format_text. split.
  - intros H. destruct (font_valid fc id) eqn:V; cbn [negb andb] in H.
    + destruct (get_next_word _) as [pos word]. destruct word; discriminate.
    + destruct id as [|x id]; cbn [andb] in H.
      * destruct (get_next_word _) as [pos word]. destruct word; discriminate.
      * destruct (text_eqb (x :: id) testFontID) eqn:T; cbn [negb] in H.
        -- destruct (get_next_word _) as [pos word]. destruct word; discriminate.
        -- split; [reflexivity|]. split; [discriminate|]. apply text_eqb_false, T.
  - intros (V & N & T). rewrite V. destruct id; [congruence|]. rewrite (text_eqb_neq _ _ T). reflexivity.
Qed.

Definition unknown_font (fc : fontcfg) (id : text) : Prop := font_valid fc id = false /\ id <> [] /\ id <> testFontID.
Definition usable_font (fc : fontcfg) (id : text) : Prop := font_valid fc id = true \/ id = [] \/ id = testFontID.
Lemma usable_or_unknown fc id : usable_font fc id \/ unknown_font fc id.
Proof.
  unfold usable_font, unknown_font. destruct (font_valid fc id); [left; left; reflexivity|].
  destruct id as [|x id]; [left; right; left; reflexivity|].
  destruct (text_eqb (x :: id) testFontID) eqn:T; [left; right; right; apply text_eqb_true, T|].
  right. split; [reflexivity|]. split; [discriminate|apply text_eqb_false, T].
Qed.
Lemma usable_not_unknown fc id : usable_font fc id -> ~ unknown_font fc id.
Proof. intros [U|[U|U]] (V & N & T); congruence. Qed.

(* usable font: the call is accepted, with or without environment errors, and yields format_text with the chosen parameters *)
Theorem parse_format_usable_font fc cli_font cli_maxlen ee l rp ttok sty w R :
  format_call l rp ttok sty w -> usable_font fc (chosen_font fc cli_font w) ->
  exists out,
    format_text fc (tlit ttok) (chosen_max fc cli_font cli_maxlen w) (chosen_cursor fc cli_font w) (chosen_font fc cli_font w)
                (chosen_lines fc cli_font w) = Some out /\
    parse_format fc cli_font cli_maxlen ee (l ++ R) = Ok (ttok, out, sty, rp :: R).
Proof.
  intros H U. rewrite (parse_format_call fc cli_font cli_maxlen ee l rp ttok sty w R H). unfold call_result.
  destruct (format_text _ _ _ _ _ _) as [out|] eqn:E.
  - exists out. split; reflexivity.
  - exfalso. apply format_text_none_iff in E. exact (usable_not_unknown _ _ U E).
Qed.

(* unknown font id, environment errors on: error "unknown fontID" located at the written font-id token (positional or fontId=),
   at the text token when the id comes from the -f option or from the config's default (repair D18) *)
Theorem parse_format_unknown_font fc cli_font cli_maxlen l rp ttok sty w R :
  format_call l rp ttok sty w -> unknown_font fc (chosen_font fc cli_font w) ->
  parse_format fc cli_font cli_maxlen true (l ++ R) =
    err_tok (match wFont w with Some tk => tk | None => ttok end) "unknown fontID".
Proof.
  intros H U. rewrite (parse_format_call fc cli_font cli_maxlen true l rp ttok sty w R H). unfold call_result.
  apply (format_text_none_iff fc (tlit ttok) (chosen_max fc cli_font cli_maxlen w) (chosen_cursor fc cli_font w) _ (chosen_lines fc cli_font w)) in U.
  rewrite U. reflexivity.
Qed.

(* unknown font id, lint mode (no environment errors): no error; the text returned is EMPTY *)
Theorem parse_format_unknown_font_lint fc cli_font cli_maxlen l rp ttok sty w R :
  format_call l rp ttok sty w -> unknown_font fc (chosen_font fc cli_font w) ->
  parse_format fc cli_font cli_maxlen false (l ++ R) = Ok (ttok, [], sty, rp :: R).
Proof.
  intros H U. rewrite (parse_format_call fc cli_font cli_maxlen false l rp ttok sty w R H). unfold call_result.
  apply (format_text_none_iff fc (tlit ttok) (chosen_max fc cli_font cli_maxlen w) (chosen_cursor fc cli_font w) _ (chosen_lines fc cli_font w)) in U.
  rewrite U. reflexivity.
Qed.

(* an accepted call never depends on the mode, except for the unknown-font case *)
Theorem parse_format_lint_same fc cli_font cli_maxlen l rp ttok sty w R r :
  format_call l rp ttok sty w -> parse_format fc cli_font cli_maxlen true (l ++ R) = Ok r ->
  parse_format fc cli_font cli_maxlen false (l ++ R) = Ok r.
Proof.
  intros H. rewrite !(parse_format_call fc cli_font cli_maxlen _ l rp ttok sty w R H). unfold call_result.
  destruct (format_text _ _ _ _ _ _); [auto|discriminate].
Qed.

(* ---------- (e): the widths table (and every default) is the one of the chosen font ---------- *)
(* the width of a character / control code under font id, read in the table of the config entry of id *)
Definition width_in (tbl : list (text * Z)) (value : text) : Z :=
  match assoc tbl value with
  | Some w => w
  | None => match assoc tbl (t "default") with Some w => w | None => 0%Z end
  end.
Lemma get_width_entry fc value id : font_valid fc id = true -> get_width fc value id = width_in (fWidths (font_of fc id)) value.
Proof.
  unfold font_valid, get_width, font_of, width_in. destruct (assoc (fcFonts fc) id); [reflexivity|discriminate].
Qed.

Section EXT.
Variables fc fc' : fontcfg.
Variable id : text.
Hypothesis same : assoc (fcFonts fc') id = assoc (fcFonts fc) id.
Lemma get_width_ext v : get_width fc' v id = get_width fc v id.
Proof. unfold get_width. rewrite same. reflexivity. Qed.
Lemma rune_width_ext r : rune_width fc' r id = rune_width fc r id.
Proof. unfold rune_width. rewrite get_width_ext. reflexivity. Qed.
Lemma code_width_ext c : code_width fc' c id = code_width fc c id.
Proof. unfold code_width. rewrite get_width_ext. reflexivity. Qed.
Lemma fold_left_ext {A B} (f g : A -> B -> A) : (forall a b, f a b = g a b) -> forall l a, fold_left f l a = fold_left g l a.
Proof. intros H. induction l as [|x l IH]; intros a; [reflexivity|]. cbn [fold_left]. rewrite H. apply IH. Qed.
Lemma word_width_ext w : word_width fc' w id = word_width fc w id.
Proof.
  unfold word_width. destruct (split_codes _ _ _ _) as [codes stripped]. f_equal; apply fold_left_ext; intros a b.
  - rewrite code_width_ext. reflexivity.
  - rewrite rune_width_ext. reflexivity.
Qed.
Lemma fmt_loop_ext : forall fuel txt maxW cursor nl spaceW pos word s,
  fmt_loop fuel fc' txt maxW cursor id nl spaceW pos word s = fmt_loop fuel fc txt maxW cursor id nl spaceW pos word s.
Proof.
  induction fuel as [|fuel IH]; intros; [reflexivity|]. cbn [fmt_loop]. destruct word as [|x word]; [reflexivity|].
  destruct (get_next_word _) as [endp nextw]. rewrite word_width_ext. apply IH.
Qed.
Lemma font_valid_ext : font_valid fc' id = font_valid fc id.
Proof. unfold font_valid. rewrite same. reflexivity. Qed.
Lemma font_of_ext : font_of fc' id = font_of fc id.
Proof. unfold font_of. rewrite same. reflexivity. Qed.
(* format_text reads the config only through the entry of the font id it is given *)
Lemma format_text_ext txt maxW cursor nl : format_text fc' txt maxW cursor id nl = format_text fc txt maxW cursor id nl.
Proof.
  unfold format_text. rewrite font_valid_ext, rune_width_ext.
  destruct (_ && _ && _); [reflexivity|]. destruct (get_next_word _) as [pos word]. destruct word; [reflexivity|].
  rewrite fmt_loop_ext. reflexivity.
Qed.
End EXT.

(* (e) as a theorem about parse_format: two font configs that agree on the entry of the chosen font (and on the name of the
   default font when the call, and the command line, name none) give the same result - in particular the entry of any
   OTHER font (e.g. of the default font when another one is named) has no influence at all *)
Theorem parse_format_reads_only_the_chosen_font fc fc' cli_font cli_maxlen ee l rp ttok sty w R :
  format_call l rp ttok sty w ->
  (wFont w = None -> cli_font = [] -> fcDefault fc' = fcDefault fc) ->
  assoc (fcFonts fc') (chosen_font fc cli_font w) = assoc (fcFonts fc) (chosen_font fc cli_font w) ->
  parse_format fc' cli_font cli_maxlen ee (l ++ R) = parse_format fc cli_font cli_maxlen ee (l ++ R).
Proof.
  intros H D S. rewrite !(parse_format_call _ cli_font cli_maxlen ee l rp ttok sty w R H).
  assert (F : chosen_font fc' cli_font w = chosen_font fc cli_font w).
  { unfold chosen_font. destruct (wFont w); [reflexivity|]. destruct cli_font; [apply D; reflexivity|reflexivity]. }
  unfold call_result, chosen_max, chosen_lines, chosen_cursor, chosen_entry. rewrite F.
  rewrite (font_of_ext fc fc' _ S), (format_text_ext fc fc' _ S). reflexivity.
Qed.

(* ====================================================================================================== *)
(* PART 8 - a concrete call (tokens produced by the model's lexer); the precedence of (b) as asked is FALSE *)
(* ====================================================================================================== *)
Module Ex.
Open Scope string_scope.
Open Scope list_scope.
Definition nf (_ : N) : bool := false.
Definition src : string := "format(""Hello there my friend"", ""small"", 0, numLines=3) next".
Definition tk (ty : toktype) (s : string) (a b : Z) : token :=
  {| ttype := ty; tlit := t s; tline := 1; tsb := a; tsu := a; teline := 1; teb := b; teu := b |}.
Definition k_fmt := tk FORMAT "format" 0 6.       Definition k_lp := tk LPAREN "(" 6 7.
Definition k_txt := tk STRING "Hello there my friend" 7 30.   Definition k_c1 := tk COMMA "," 30 31.
Definition k_font := tk STRING "small" 32 39.     Definition k_c2 := tk COMMA "," 39 40.
Definition k_zero := tk INT "0" 41 42.            Definition k_c3 := tk COMMA "," 42 43.
Definition k_nl := tk IDENT "numLines" 44 52.     Definition k_eq := tk ASSIGN "=" 52 53.
Definition k_3 := tk INT "3" 53 54.               Definition k_rp := tk RPAREN ")" 54 55.
Definition k_next := tk IDENT "next" 56 60.       Definition k_eof := tk EOF "" 60 60.
Definition call : list token := [k_fmt; k_lp; k_txt; k_c1; k_font; k_c2; k_zero; k_c3; k_nl; k_eq; k_3; k_rp].
Definition rest : list token := [k_next; k_eof].
Example lexed : lex nf nf nf (t src) = call ++ rest.
Proof. vm_compute. reflexivity. Qed.

(* what the call writes: font "small" (positional), maxLineLength 0 (positional), numLines 3 (named) *)
Definition wr : written := {| wFont := Some k_font; wMax := Some 0%Z; wLines := Some 3%Z; wCursor := None |}.
Example call_in_grammar : format_call call k_rp k_txt [] wr.
Proof.
  apply (FC k_fmt k_lp [] [] k_txt [k_c1; k_font; k_c2; k_zero; k_c3; k_nl; k_eq; k_3] wr k_rp);
    try reflexivity; [constructor|].
  apply (P_pos_named k_c1 [k_font; k_c2; k_zero] true [t "fontId"]
           {| wFont := Some k_font; wMax := Some 0%Z; wLines := None; wCursor := None |} k_c3 [k_nl; k_eq; k_3] [t "numLines"; t "fontId"] wr);
    try reflexivity; [apply (Pos_font_max k_font k_c2 k_zero); reflexivity| |left; reflexivity].
  apply (NS_item [t "fontId"] _ k_nl k_eq k_3 [] [] [t "numLines"; t "fontId"] wr); try reflexivity.
  - right; right; left; reflexivity.
  - intros [H|[]]. discriminate H.
  - constructor.
  - apply NS_nil.
Qed.

(* two fonts with different parameters; -l 200 on the command line *)
Definition f_normal : font := {| fWidths := [(t "default", 10%Z)]; fCursor := 5; fMaxLen := 100; fNumLines := 2 |}.
Definition f_small : font := {| fWidths := [(t "default", 10%Z)]; fCursor := 7; fMaxLen := 60; fNumLines := 4 |}.
Definition cfg : fontcfg := {| fcDefault := t "normal"; fcFonts := [(t "normal", f_normal); (t "small", f_small)] |}.

Example chosen_here :
  chosen_font cfg [] wr = t "small" /\ chosen_entry cfg [] wr = f_small /\
  chosen_max cfg [] 200 wr = 60%Z /\          (* the written 0 selects the maxLineLength of font "small", not -l 200 *)
  chosen_lines cfg [] wr = 3%Z /\ chosen_cursor cfg [] wr = 7%Z.
Proof. vm_compute. repeat split; reflexivity. Qed.

Example result_here :
  parse_format cfg [] 200 true (lex nf nf nf (t src)) =
  Ok (k_txt, t "Hello\n" ++ [10%N] ++ t "there\n" ++ [10%N] ++ t "my\l" ++ [10%N] ++ t "friend", [], k_rp :: rest).
Proof. vm_compute. reflexivity. Qed.

(* THE STATEMENT (b) OF THE TASK ("the written one if > 0, else cli_maxlen if > 0, else the font's") IS FALSE OF THE MODEL
   (and of the Go code, parser.go:1392: `if maxLineLength <= 0 { maxLineLength = p.fonts.Fonts[fontID].MaxLineLength }` is
   tested AFTER the written value has overwritten the -l value): a written `0` (or a negative / unparsable number) hides
   the command-line value.  With the precedence of the task the text would have been broken at 200 pixels: *)
Definition asked_max (fc : fontcfg) (cli_font : text) (cli_maxlen : Z) (w : written) : Z :=
  match wMax w with
  | Some v => if (0 <? v)%Z then v else if (0 <? cli_maxlen)%Z then cli_maxlen else fMaxLen (chosen_entry fc cli_font w)
  | None => if (0 <? cli_maxlen)%Z then cli_maxlen else fMaxLen (chosen_entry fc cli_font w)
  end.
Example asked_precedence_is_false :
  asked_max cfg [] 200 wr = 200%Z /\ chosen_max cfg [] 200 wr = 60%Z /\
  format_text cfg (tlit k_txt) (asked_max cfg [] 200 wr) (chosen_cursor cfg [] wr) (chosen_font cfg [] wr) (chosen_lines cfg [] wr)
    = Some (t "Hello there my\n" ++ [10%N] ++ t "friend") /\
  exists out, parse_format cfg [] 200 true (call ++ rest) = Ok (k_txt, out, [], k_rp :: rest) /\
              out <> t "Hello there my\n" ++ [10%N] ++ t "friend".
Proof.
  split; [reflexivity|]. split; [reflexivity|]. split; [vm_compute; reflexivity|].
  eexists. split; [vm_compute; reflexivity|]. vm_compute. discriminate.
Qed.
(* the two statements agree whenever the written value is positive or absent *)
Lemma asked_max_agrees fc cli_font cli_maxlen w :
  (forall v, wMax w = Some v -> (0 < v)%Z) -> asked_max fc cli_font cli_maxlen w = chosen_max fc cli_font cli_maxlen w.
Proof.
  intros H. unfold asked_max, chosen_max. destruct (wMax w) as [v|]; cbv zeta.
  - specialize (H v eq_refl). destruct (Z.ltb_spec 0 v); [|lia]. destruct (Z.leb_spec v 0); [lia|reflexivity].
  - destruct (Z.ltb_spec 0 cli_maxlen); destruct (Z.leb_spec cli_maxlen 0); try lia; reflexivity.
Qed.

(* the hypotheses of the unknown-font theorems are satisfiable: same call, a config without font "small" *)
Definition cfg1 : fontcfg := {| fcDefault := t "normal"; fcFonts := [(t "normal", f_normal)] |}.
Example unknown_here :
  unknown_font cfg1 (chosen_font cfg1 [] wr) /\
  parse_format cfg1 [] 200 true (call ++ rest) = err_tok k_font "unknown fontID" /\
  parse_format cfg1 [] 200 false (call ++ rest) = Ok (k_txt, [], [], k_rp :: rest).
Proof.
  split; [split; [reflexivity|split; discriminate]|]. split; vm_compute; reflexivity.
Qed.
End Ex.

(* ====================================================================================================== *)
(* PART 9 - the malformed calls: every error exit of parse_format, with the token the error is located at  *)
(* ====================================================================================================== *)
Definition perr_tok (tk : token) (m : string) : perr :=
  {| els := tline tk; ele := teline tk; ecs := tsb tk; eus := tsu tk; ece := teb tk; eue := teu tk; emsg := t m |}.
Definition perr_range (a b : token) (m : string) : perr :=
  {| els := tline a; ele := teline b; ecs := tsb a; eus := tsu a; ece := teb b; eue := teu b; emsg := t m |}.
Lemma err_tok_perr {A} tk m : @err_tok A tk m = Err (perr_tok tk m).
Proof. reflexivity. Qed.

(* terminal facts of the loop: the five error exits inside one iteration *)
Lemma NL_err_name c id rest p had :
  ttype id = IDENT -> ~ In (tlit id) named_params ->
  NL (c :: id :: rest) p had (err_tok id "invalid format() named parameter").
Proof.
  intros Hid Hn f Hf. destruct f as [|f]; [cbn in Hf; lia|]. rewrite named_loop_eq. ev. cbv zeta. ev.
  rewrite (mem_false _ _ Hn). reflexivity.
Qed.
Lemma NL_err_assign c id x rest p had :
  ttype id = IDENT -> In (tlit id) named_params -> ttype x <> ASSIGN ->
  NL (c :: id :: x :: rest) p had (err_tok x "missing '=' after format() named parameter").
Proof.
  intros Hid Hn Hx f Hf. destruct f as [|f]; [cbn in Hf; lia|]. rewrite named_loop_eq. ev. cbv zeta. ev.
  rewrite (mem_true _ _ Hn). cbn [negb]. ev. reflexivity.
Qed.
Lemma NL_err_dup c id eq rest p had :
  ttype id = IDENT -> In (tlit id) named_params -> ttype eq = ASSIGN -> In (tlit id) (pSpec p) ->
  NL (c :: id :: eq :: rest) p had (err_tok id "duplicate parameter").
Proof.
  intros Hid Hn He Hd f Hf. destruct f as [|f]; [cbn in Hf; lia|]. rewrite named_loop_eq. ev. cbv zeta. ev.
  rewrite (mem_true _ _ Hn). cbn [negb]. ev. rewrite (mem_true _ _ Hd). reflexivity.
Qed.
Lemma NL_err_value c id eq x rest p had :
  ttype id = IDENT -> In (tlit id) named_params -> ttype eq = ASSIGN -> ~ In (tlit id) (pSpec p) ->
  ttype x <> value_type (tlit id) ->
  NL (c :: id :: eq :: x :: rest) p had
     (err_tok x (if text_eqb (tlit id) (t "fontId") then "invalid fontId. Expected string" else "invalid parameter. Expected integer")).
Proof.
  intros Hid Hn He Hd Hx f Hf. destruct f as [|f]; [cbn in Hf; lia|]. rewrite named_loop_eq. ev. cbv zeta. ev.
  rewrite (mem_true _ _ Hn). cbn [negb]. ev. rewrite (mem_false _ _ Hd).
  unfold value_type in Hx. destruct (text_eqb (tlit id) (t "fontId")); ev; reflexivity.
Qed.
Lemma NL_err_after_comma p0 w spec c id eq v k x rest had :
  ttype id = IDENT -> In (tlit id) named_params -> ~ In (tlit id) spec -> ttype eq = ASSIGN -> ttype v = value_type (tlit id) ->
  ttype k = COMMA -> ttype x <> IDENT -> ttype x <> RPAREN ->
  NL (c :: id :: eq :: v :: k :: x :: rest) (upd p0 w spec) had (err_tok x "invalid parameter. Expected named parameter").
Proof.
  intros Hid Hin Hns Heq Hv Hk Hx1 Hx2 f Hf. destruct f as [|f]; [cbn in Hf; lia|].
  rewrite named_loop_eq. ev. cbv zeta. ev.
  rewrite (mem_true _ _ Hin). cbn [negb]. ev. cbn [upd pSpec]. rewrite (mem_false _ _ Hns).
  named_cases Hin Hv; text_eval; cbv beta iota; ev; reflexivity.
Qed.

(* HEAD ::= 'format' '(' STYPE STRING *)
Inductive call_head : list token -> token -> text -> Prop :=
| CH fmt lp styl sty str : ttype lp = LPAREN -> stype_opt styl sty -> ttype str = STRING -> call_head (fmt :: lp :: styl ++ [str]) str sty.

(* what precedes the named parameters: ',' or ',' POSITIONAL ','    (the bool: a parameter has been seen) *)
Inductive named_ctx : list token -> list text -> written -> bool -> Prop :=
| NC_direct c : ttype c = COMMA -> named_ctx [c] [] w0 false
| NC_pos c l both spec w c2 : ttype c = COMMA -> positional l both spec w -> ttype c2 = COMMA -> named_ctx (c :: l ++ [c2]) spec w true.

Section ERR.
Variable fc : fontcfg.
Variable cli_font : text.
Variable cli_maxlen : Z.
Variable ee : bool.
Notation P0 := (p_init fc cli_font cli_maxlen).

Lemma head_eval h str sty rest :
  call_head h str sty ->
  parse_format fc cli_font cli_maxlen ee (h ++ rest) = (do (p, ts4) <- params_part P0 (str :: rest); finish fc ee str sty p ts4).
Proof.
  intros H. destruct H as [fmt lp styl sty str Hlp Hst Hstr]. rewrite parse_format_eq.
  repeat (first [rewrite <- app_assoc | progress cbn [app]]).
  destruct Hst as [|st Hst]; cbn [app]; ev; reflexivity.
Qed.

Lemma finish_no_rparen ttok sty p c x rest :
  ttype x <> RPAREN -> finish fc ee ttok sty p (c :: x :: rest) = err_tok x "missing closing parenthesis ')' for format()".
Proof. intros H. unfold finish. ev. reflexivity. Qed.

Lemma params_part_named k spec w had ln spec' w' str z rest r :
  named_ctx k spec w had -> named_seq spec w ln spec' w' -> ttype z = IDENT ->
  (forall c, NL (c :: z :: rest) (upd P0 w' spec') (had || nonnil ln) r) ->
  params_part P0 (str :: k ++ ln ++ z :: rest) =
  (do (p2, had2, tsc) <- r; if negb had2 then err_tok (pk 1 tsc) "invalid format() parameter" else Ok (p2, tsc)).
Proof.
  intros Hk Hn Hz H.
  destruct (named_seq_head _ _ _ _ _ z rest Hn (or_introl Hz)) as (y & rest' & E & Fy).
  assert (Hy : ttype y = IDENT).
  { destruct Hn; cbn [app] in E; inversion E; subst; assumption. }
  destruct Hk as [c Hc|c l both spec w c2 Hc Hl Hc2].
  - cbn [app]. unfold params_part. ev. cbv zeta. rewrite E. rewrite pos_part_none by (rewrite Hy; discriminate). rewrite <- E.
    change P0 with (upd P0 w0 []) at 1.
    rewrite (NL_prefix P0 _ _ _ _ _ Hn z rest (or_introl Hz) c false r (H _)) by lia. reflexivity.
  - cbn [app]. rewrite <- app_assoc. cbn [app]. unfold params_part. ev. cbv zeta. rewrite E.
    rewrite (pos_part_more fc cli_font cli_maxlen _ _ _ _ c c2 y rest' Hl Hc2 (or_intror Hy)). rewrite <- E.
    rewrite (NL_prefix P0 _ _ _ _ _ Hn z rest (or_introl Hz) c2 true r (H _)) by lia. reflexivity.
Qed.
End ERR.

(* the catalogue: format_error l e = "the tokens l, whatever follows them, make parse_format stop with error e"
   (the last token of l is the one the parser was looking at).  Beside these there is only the "unknown fontID" error
   of a complete call (parse_format_unknown_font). *)
Definition not_in (x : token) (tys : list toktype) : Prop := forall ty, In ty tys -> ttype x <> ty.
Definition MSG_CLOSE : string := "missing closing parenthesis ')' for format()".

Inductive format_error : list token -> perr -> Prop :=
(* format x               x not '(' : range from the format token to x *)
| E_lparen fmt x : ttype x <> LPAREN ->
    format_error [fmt; x] (perr_range fmt x "format operator must begin with an open parenthesis")
(* format ( [STYPE] x     x not a string *)
| E_string fmt lp styl sty x : ttype lp = LPAREN -> stype_opt styl sty -> ttype x <> STRING -> (styl = [] -> ttype x <> STRINGTYPE) ->
    format_error (fmt :: lp :: styl ++ [x]) (perr_tok x "invalid format() argument. Expected a string literal")
(* HEAD x                 x neither ',' nor ')' *)
| E_close_head h str sty x : call_head h str sty -> not_in x [COMMA; RPAREN] ->
    format_error (h ++ [x]) (perr_tok x MSG_CLOSE)
(* HEAD , x               x not INT, STRING, IDENT (in particular `format("..",)`) *)
| E_no_param h str sty c x : call_head h str sty -> ttype c = COMMA -> not_in x [INT; STRING; IDENT] ->
    format_error (h ++ [c; x]) (perr_tok x "invalid format() parameter")
(* HEAD , STRING , x      x not INT, IDENT *)
| E_pos_int h str sty c s c2 x : call_head h str sty -> ttype c = COMMA -> ttype s = STRING -> ttype c2 = COMMA -> not_in x [INT; IDENT] ->
    format_error (h ++ [c; s; c2; x]) (perr_tok x "invalid format() maxLineLength. Expected integer")
(* HEAD , INT , x         x not STRING, IDENT *)
| E_pos_string h str sty c i c2 x : call_head h str sty -> ttype c = COMMA -> ttype i = INT -> ttype c2 = COMMA -> not_in x [STRING; IDENT] ->
    format_error (h ++ [c; i; c2; x]) (perr_tok x "invalid format() fontId. Expected string")
(* HEAD , POSITIONAL x    x neither ',' nor ')' *)
| E_close_pos h str sty c l both spec w x : call_head h str sty -> ttype c = COMMA -> positional l both spec w -> not_in x [COMMA; RPAREN] ->
    format_error (h ++ c :: l ++ [x]) (perr_tok x MSG_CLOSE)
(* HEAD , POSITIONAL(both) , x     x neither IDENT nor ')' *)
| E_close_pos2 h str sty c l spec w c2 x : call_head h str sty -> ttype c = COMMA -> positional l true spec w -> ttype c2 = COMMA ->
    not_in x [IDENT; RPAREN] ->
    format_error (h ++ c :: l ++ [c2; x]) (perr_tok x MSG_CLOSE)
(* HEAD CTX NAMED id      id an identifier that is not one of the four names: located at id *)
| E_name h str sty k spec w had ln spec' w' id :
    call_head h str sty -> named_ctx k spec w had -> named_seq spec w ln spec' w' ->
    ttype id = IDENT -> ~ In (tlit id) named_params ->
    format_error (h ++ k ++ ln ++ [id]) (perr_tok id "invalid format() named parameter")
(* HEAD CTX NAMED name x  x not '=' *)
| E_assign h str sty k spec w had ln spec' w' id x :
    call_head h str sty -> named_ctx k spec w had -> named_seq spec w ln spec' w' ->
    ttype id = IDENT -> In (tlit id) named_params -> ttype x <> ASSIGN ->
    format_error (h ++ k ++ ln ++ [id; x]) (perr_tok x "missing '=' after format() named parameter")
(* HEAD CTX NAMED name =  name already specified (by name, or as FIRST positional parameter): located at the name *)
| E_duplicate h str sty k spec w had ln spec' w' id eq :
    call_head h str sty -> named_ctx k spec w had -> named_seq spec w ln spec' w' ->
    ttype id = IDENT -> In (tlit id) named_params -> ttype eq = ASSIGN -> In (tlit id) spec' ->
    format_error (h ++ k ++ ln ++ [id; eq]) (perr_tok id "duplicate parameter")
(* HEAD CTX NAMED name = x   x of the wrong type: STRING expected for fontId, INT for the others *)
| E_value h str sty k spec w had ln spec' w' id eq x :
    call_head h str sty -> named_ctx k spec w had -> named_seq spec w ln spec' w' ->
    ttype id = IDENT -> In (tlit id) named_params -> ttype eq = ASSIGN -> ~ In (tlit id) spec' -> ttype x <> value_type (tlit id) ->
    format_error (h ++ k ++ ln ++ [id; eq; x])
      (perr_tok x (if text_eqb (tlit id) (t "fontId") then "invalid fontId. Expected string" else "invalid parameter. Expected integer"))
(* HEAD CTX NAMED name = v , x     x neither IDENT nor ')' *)
| E_after_comma h str sty k spec w had ln spec' w' id eq v c x :
    call_head h str sty -> named_ctx k spec w had -> named_seq spec w ln spec' w' ->
    ttype id = IDENT -> In (tlit id) named_params -> ttype eq = ASSIGN -> ~ In (tlit id) spec' -> ttype v = value_type (tlit id) ->
    ttype c = COMMA -> not_in x [IDENT; RPAREN] ->
    format_error (h ++ k ++ ln ++ [id; eq; v; c; x]) (perr_tok x "invalid parameter. Expected named parameter")
(* HEAD CTX NAMED name = v x       x not ',', IDENT, ')' *)
| E_close_named h str sty k spec w had ln spec' w' id eq v x :
    call_head h str sty -> named_ctx k spec w had -> named_seq spec w ln spec' w' ->
    ttype id = IDENT -> In (tlit id) named_params -> ttype eq = ASSIGN -> ~ In (tlit id) spec' -> ttype v = value_type (tlit id) ->
    not_in x [COMMA; IDENT; RPAREN] ->
    format_error (h ++ k ++ ln ++ [id; eq; v; x]) (perr_tok x MSG_CLOSE).

Ltac not_in_hyps :=
  repeat match goal with
         | H : not_in ?x ?l |- _ =>
             let rec go l := lazymatch l with
                             | ?a :: ?r => (let N := fresh "N" in assert (N : ttype x <> a) by (apply H; cbn [In]; tauto)); go r
                             | [] => idtac
                             end in go l; clear H
         end.
Ltac norm_app := repeat (first [rewrite <- app_assoc | progress cbn [app]]).

Theorem format_error_located fc cli_font cli_maxlen ee l e R :
  format_error l e -> parse_format fc cli_font cli_maxlen ee (l ++ R) = Err e.
Proof.
  intros H. destruct H; not_in_hyps.
  - rewrite parse_format_eq. cbn [app]. ev. reflexivity.
  - rewrite parse_format_eq. norm_app.
    match goal with Hs : stype_opt _ _ |- _ => destruct Hs as [|st Hst] end; cbn [app].
    + assert (N : ttype x <> STRINGTYPE) by auto. ev. reflexivity.
    + ev. reflexivity.
  - norm_app. erewrite head_eval by eassumption. unfold params_part. ev. apply finish_no_rparen. assumption.
  - norm_app. erewrite head_eval by eassumption. unfold params_part. ev. cbv zeta.
    rewrite pos_part_none by assumption. cbv beta iota. rewrite (NL_end _ _ _ _ _ N1) by lia. ev. reflexivity.
  - norm_app. erewrite head_eval by eassumption. unfold params_part. ev. cbv zeta. unfold pos_part. ev. cbv zeta. ev. reflexivity.
  - norm_app. erewrite head_eval by eassumption. unfold params_part. ev. cbv zeta. unfold pos_part. ev. cbv zeta. ev. reflexivity.
  - norm_app. erewrite head_eval by eassumption. unfold params_part. ev. cbv zeta.
    erewrite pos_part_end by eassumption. cbv beta iota. cbn [negb]. apply finish_no_rparen. assumption.
  - norm_app. erewrite head_eval by eassumption. unfold params_part. ev. cbv zeta.
    erewrite pos_part_more; [|eassumption|assumption|left; reflexivity]. cbv beta iota.
    rewrite (NL_end _ _ _ _ _ N) by lia. cbn [negb]. apply finish_no_rparen. assumption.
  - norm_app. erewrite head_eval by eassumption.
    erewrite params_part_named; [|eassumption|eassumption|eassumption|intros c0; apply NL_err_name; assumption]. reflexivity.
  - norm_app. erewrite head_eval by eassumption.
    erewrite params_part_named; [|eassumption|eassumption|eassumption|intros c0; apply NL_err_assign; assumption]. reflexivity.
  - norm_app. erewrite head_eval by eassumption.
    erewrite params_part_named; [|eassumption|eassumption|eassumption|intros c0; apply NL_err_dup; assumption]. reflexivity.
  - norm_app. erewrite head_eval by eassumption.
    erewrite params_part_named; [|eassumption|eassumption|eassumption|intros c0; apply NL_err_value; assumption]. reflexivity.
  - norm_app. erewrite head_eval by eassumption.
    erewrite params_part_named; [|eassumption|eassumption|eassumption|intros c0; apply NL_err_after_comma; assumption]. reflexivity.
  - norm_app. erewrite head_eval by eassumption.
    erewrite params_part_named; [|eassumption|eassumption|eassumption|
      intros c0; eapply NL_item; try eassumption; apply NL_end; assumption].
    cbv beta iota. cbn [negb]. apply finish_no_rparen. assumption.
Qed.

(* ====================================================================================================== *)
(* PART 10 - the grammar and the catalogue are EXHAUSTIVE: every token stream that starts with `format` (and ends with
   the lexer's EOF token) begins either with a call of the grammar or with one of the malformed shapes          *)
(* ====================================================================================================== *)
Definition eof_ended (ts : toks) : Prop := ts <> [] /\ ttype (last ts eof0) = EOF.    (* = Consume.eof_ended *)

Lemma eof_next a r : eof_ended (a :: r) -> ttype a <> EOF -> exists b r', r = b :: r' /\ eof_ended (b :: r').
Proof.
  intros [_ E] N. destruct r as [|b r']; [exfalso; apply N; exact E|].
  exists b, r'. split; [reflexivity|]. split; [discriminate|exact E].
Qed.

(* the malformed continuations of a NAMED sequence, relative to the names specified so far *)
Inductive named_err (spec : list text) : list token -> perr -> Prop :=
| NE_name id : ttype id = IDENT -> ~ In (tlit id) named_params ->
    named_err spec [id] (perr_tok id "invalid format() named parameter")
| NE_assign id x : ttype id = IDENT -> In (tlit id) named_params -> ttype x <> ASSIGN ->
    named_err spec [id; x] (perr_tok x "missing '=' after format() named parameter")
| NE_dup id eq : ttype id = IDENT -> In (tlit id) named_params -> ttype eq = ASSIGN -> In (tlit id) spec ->
    named_err spec [id; eq] (perr_tok id "duplicate parameter")
| NE_value id eq x : ttype id = IDENT -> In (tlit id) named_params -> ttype eq = ASSIGN -> ~ In (tlit id) spec ->
    ttype x <> value_type (tlit id) ->
    named_err spec [id; eq; x]
      (perr_tok x (if text_eqb (tlit id) (t "fontId") then "invalid fontId. Expected string" else "invalid parameter. Expected integer"))
| NE_after_comma id eq v c x : ttype id = IDENT -> In (tlit id) named_params -> ttype eq = ASSIGN -> ~ In (tlit id) spec ->
    ttype v = value_type (tlit id) -> ttype c = COMMA -> not_in x [IDENT; RPAREN] ->
    named_err spec [id; eq; v; c; x] (perr_tok x "invalid parameter. Expected named parameter")
| NE_close id eq v x : ttype id = IDENT -> In (tlit id) named_params -> ttype eq = ASSIGN -> ~ In (tlit id) spec ->
    ttype v = value_type (tlit id) -> not_in x [COMMA; IDENT; RPAREN] ->
    named_err spec [id; eq; v; x] (perr_tok x MSG_CLOSE).

Lemma named_err_format_error h str sty k spec w had ln spec' w' l e :
  call_head h str sty -> named_ctx k spec w had -> named_seq spec w ln spec' w' -> named_err spec' l e ->
  format_error (h ++ k ++ ln ++ l) e.
Proof.
  intros Hh Hk Hn He. destruct He.
  - eapply E_name; eassumption.
  - eapply E_assign; eassumption.
  - eapply E_duplicate; eassumption.
  - eapply E_value; eassumption.
  - eapply E_after_comma; eassumption.
  - eapply E_close_named; eassumption.
Qed.

Lemma In_dec_text (x : text) (l : list text) : {In x l} + {~ In x l}.
Proof. apply in_dec. apply (list_eq_dec N.eq_dec). Qed.

Lemma value_type_not_eof name : value_type name <> EOF.
Proof. unfold value_type. destruct (text_eqb _ _); discriminate. Qed.

Ltac nexttok H x r' H' :=
  match type of H with
  | eof_ended (?a :: ?r) =>
      let K := fresh "K" in
      assert (K : ttype a <> EOF) by (first [congruence | (match goal with E : ttype a = _ |- _ => rewrite E end; first [discriminate|apply value_type_not_eof])]);
      destruct (eof_next a r H K) as (x & r' & -> & H'); clear K
  end.
Ltac is_ty x T H := destruct (toktype_eq_dec (ttype x) T) as [H|H].
Ltac ni := intros ty0 Hty0; cbn [In] in Hty0; repeat (destruct Hty0 as [Hty0|Hty0]; [subst ty0; assumption|]); contradiction.

Lemma named_classify : forall n id r spec w,
  (List.length r <= n)%nat -> eof_ended (id :: r) -> ttype id = IDENT ->
  (exists ln spec' w' rp R, id :: r = ln ++ rp :: R /\ named_seq spec w ln spec' w' /\ ln <> [] /\ ttype rp = RPAREN) \/
  (exists ln spec' w' l R e, id :: r = ln ++ l ++ R /\ named_seq spec w ln spec' w' /\ named_err spec' l e).
Proof.
  induction n as [|n IH]; intros id r spec w Hn Hr Hid.
  { destruct r; [|cbn in Hn; lia]. destruct Hr as [_ E]. cbn in E. congruence. }
  destruct (In_dec_text (tlit id) named_params) as [Hin|Hin].
  2:{ right. exists [], spec, w, [id], r. eexists. split; [reflexivity|]. split; [apply NS_nil|]. apply NE_name; assumption. }
  nexttok Hr ea r1 Hr1. is_ty ea ASSIGN Heq.
  2:{ right. exists [], spec, w, [id; ea], r1. eexists. split; [reflexivity|]. split; [apply NS_nil|]. apply NE_assign; assumption. }
  destruct (In_dec_text (tlit id) spec) as [Hsp|Hsp].
  { right. exists [], spec, w, [id; ea], r1. eexists. split; [reflexivity|]. split; [apply NS_nil|]. apply NE_dup; assumption. }
  pose proof (eof_next _ _ Hr1 ltac:(rewrite Heq; discriminate)) as (v & r2 & -> & Hr2).
  destruct (toktype_eq_dec (ttype v) (value_type (tlit id))) as [Hv|Hv].
  2:{ right. exists [], spec, w, [id; ea; v], r2. eexists. split; [reflexivity|]. split; [apply NS_nil|]. apply NE_value; assumption. }
  nexttok Hr2 y r3 Hr3.
  is_ty y RPAREN Hy.
  { left. exists [id; ea; v], (tlit id :: spec), (write (tlit id) v w), y, r3. split; [reflexivity|].
    split; [|split; [discriminate|exact Hy]].
    apply (NS_item spec w id ea v [] []); try assumption; [constructor|apply NS_nil]. }
  is_ty y IDENT Hy2.
  { destruct (IH y r3 (tlit id :: spec) (write (tlit id) v w)) as [(ln & spec' & w' & rp & R & E & Hs & _ & Hrp)|(ln & spec' & w' & l & R & e & E & Hs & He)];
      [cbn [List.length] in Hn; lia|exact Hr3|exact Hy2| |].
    - left. exists (id :: ea :: v :: [] ++ ln), spec', w', rp, R. split; [cbn [app]; rewrite E; reflexivity|].
      split; [|split; [discriminate|exact Hrp]]. apply NS_item; try assumption. constructor.
    - right. exists (id :: ea :: v :: [] ++ ln), spec', w', l, R, e. split; [cbn [app]; rewrite E; reflexivity|].
      split; [|exact He]. apply NS_item; try assumption. constructor. }
  is_ty y COMMA Hy3.
  2:{ right. exists [], spec, w, [id; ea; v; y], r3. eexists. split; [reflexivity|]. split; [apply NS_nil|].
      apply NE_close; try assumption. ni. }
  nexttok Hr3 q r4 Hr4.
  is_ty q RPAREN Hq.
  { left. exists [id; ea; v; y], (tlit id :: spec), (write (tlit id) v w), q, r4. split; [reflexivity|].
    split; [|split; [discriminate|exact Hq]].
    apply (NS_item spec w id ea v [y] []); try assumption; [constructor; assumption|apply NS_nil]. }
  is_ty q IDENT Hq2.
  2:{ right. exists [], spec, w, [id; ea; v; y; q], r4. eexists. split; [reflexivity|]. split; [apply NS_nil|].
      apply NE_after_comma; try assumption. ni. }
  destruct (IH q r4 (tlit id :: spec) (write (tlit id) v w)) as [(ln & spec' & w' & rp & R & E & Hs & _ & Hrp)|(ln & spec' & w' & l & R & e & E & Hs & He)];
    [cbn [List.length] in Hn; lia|exact Hr4|exact Hq2| |].
  - left. exists (id :: ea :: v :: [y] ++ ln), spec', w', rp, R. split; [cbn [app]; rewrite E; reflexivity|].
    split; [|split; [discriminate|exact Hrp]]. apply NS_item; try assumption. constructor; assumption.
  - right. exists (id :: ea :: v :: [y] ++ ln), spec', w', l, R, e. split; [cbn [app]; rewrite E; reflexivity|].
    split; [|exact He]. apply NS_item; try assumption. constructor; assumption.
Qed.

Lemma named_ctx_params k spec w had ln spec' w' :
  named_ctx k spec w had -> named_seq spec w ln spec' w' -> ln <> [] -> params (k ++ ln) w'.
Proof.
  intros Hk Hn Hne. destruct Hk as [c Hc|c l both spec w c2 Hc Hl Hc2].
  - cbn [app]. eapply P_named; eassumption.
  - cbn [app]. rewrite <- app_assoc. cbn [app]. eapply P_pos_named; try eassumption. right. exact Hne.
Qed.

Lemma named_part_classify h str sty k spec w had id r :
  call_head h str sty -> named_ctx k spec w had -> eof_ended (id :: r) -> ttype id = IDENT ->
  (exists ps w' rp R, k ++ id :: r = ps ++ rp :: R /\ params ps w' /\ ttype rp = RPAREN) \/
  (exists l R e, k ++ id :: r = l ++ R /\ format_error (h ++ l) e).
Proof.
  intros Hh Hk Hr Hid.
  destruct (named_classify (List.length r) id r spec w (le_n _) Hr Hid)
    as [(ln & spec' & w' & rp & R & E & Hs & Hne & Hrp)|(ln & spec' & w' & l & R & e & E & Hs & He)].
  - left. exists (k ++ ln), w', rp, R. split; [rewrite E, app_assoc; reflexivity|].
    split; [eapply named_ctx_params; eassumption|exact Hrp].
  - right. exists (k ++ ln ++ l), R, e. split; [rewrite E, <- !app_assoc; reflexivity|].
    eapply named_err_format_error; eassumption.
Qed.

Lemma params_classify h str sty z r :
  call_head h str sty -> eof_ended (z :: r) ->
  (exists ps w rp R, z :: r = ps ++ rp :: R /\ params ps w /\ ttype rp = RPAREN) \/
  (exists l R e, z :: r = l ++ R /\ format_error (h ++ l) e).
Proof.
  intros Hh Hr.
  is_ty z RPAREN Hz. { left. exists [], w0, z, r. split; [reflexivity|]. split; [apply P_none|exact Hz]. }
  is_ty z COMMA Hc.
  2:{ right. exists [z], r. eexists. split; [reflexivity|]. eapply E_close_head; [exact Hh|ni]. }
  nexttok Hr x r1 Hr1.
  is_ty x IDENT Hx1.
  { exact (named_part_classify h str sty [z] [] w0 false x r1 Hh (NC_direct z Hc) Hr1 Hx1). }
  is_ty x INT Hx2.
  { (* first positional parameter: maxLineLength *)
    nexttok Hr1 y r2 Hr2.
    is_ty y RPAREN Hy1.
    { left. exists [z; x]. eexists. exists y, r2. split; [reflexivity|]. split; [|exact Hy1].
      eapply P_pos; [exact Hc|apply (Pos_max x Hx2)]. }
    is_ty y COMMA Hy2.
    2:{ right. exists [z; x; y], r2. eexists. split; [reflexivity|].
        eapply (E_close_pos h str sty z [x] false _ _ y Hh Hc (Pos_max x Hx2)). ni. }
    nexttok Hr2 u r3 Hr3.
    is_ty u IDENT Hu1.
    { exact (named_part_classify h str sty (z :: [x] ++ [y]) _ _ true u r3 Hh (NC_pos z [x] false _ _ y Hc (Pos_max x Hx2) Hy2) Hr3 Hu1). }
    is_ty u STRING Hu2.
    2:{ right. exists [z; x; y; u], r3. eexists. split; [reflexivity|].
        eapply (E_pos_string h str sty z x y u Hh Hc Hx2 Hy2). ni. }
    nexttok Hr3 v r4 Hr4.
    is_ty v RPAREN Hv1.
    { left. exists [z; x; y; u]. eexists. exists v, r4. split; [reflexivity|]. split; [|exact Hv1].
      eapply P_pos; [exact Hc|apply (Pos_max_font x y u Hx2 Hy2 Hu2)]. }
    is_ty v COMMA Hv2.
    2:{ right. exists [z; x; y; u; v], r4. eexists. split; [reflexivity|].
        eapply (E_close_pos h str sty z [x; y; u] true _ _ v Hh Hc (Pos_max_font x y u Hx2 Hy2 Hu2)). ni. }
    nexttok Hr4 q r5 Hr5.
    is_ty q IDENT Hq1.
    { exact (named_part_classify h str sty (z :: [x; y; u] ++ [v]) _ _ true q r5 Hh
               (NC_pos z [x; y; u] true _ _ v Hc (Pos_max_font x y u Hx2 Hy2 Hu2) Hv2) Hr5 Hq1). }
    is_ty q RPAREN Hq2.
    { left. exists (z :: [x; y; u] ++ v :: []). eexists. exists q, r5. split; [reflexivity|]. split; [|exact Hq2].
      eapply P_pos_named; [exact Hc|apply (Pos_max_font x y u Hx2 Hy2 Hu2)|exact Hv2|apply NS_nil|left; reflexivity]. }
    right. exists [z; x; y; u; v; q], r5. eexists. split; [reflexivity|].
    eapply (E_close_pos2 h str sty z [x; y; u] _ _ v q Hh Hc (Pos_max_font x y u Hx2 Hy2 Hu2) Hv2). ni. }
  is_ty x STRING Hx3.
  { (* first positional parameter: font id *)
    nexttok Hr1 y r2 Hr2.
    is_ty y RPAREN Hy1.
    { left. exists [z; x]. eexists. exists y, r2. split; [reflexivity|]. split; [|exact Hy1].
      eapply P_pos; [exact Hc|apply (Pos_font x Hx3)]. }
    is_ty y COMMA Hy2.
    2:{ right. exists [z; x; y], r2. eexists. split; [reflexivity|].
        eapply (E_close_pos h str sty z [x] false _ _ y Hh Hc (Pos_font x Hx3)). ni. }
    nexttok Hr2 u r3 Hr3.
    is_ty u IDENT Hu1.
    { exact (named_part_classify h str sty (z :: [x] ++ [y]) _ _ true u r3 Hh (NC_pos z [x] false _ _ y Hc (Pos_font x Hx3) Hy2) Hr3 Hu1). }
    is_ty u INT Hu2.
    2:{ right. exists [z; x; y; u], r3. eexists. split; [reflexivity|].
        eapply (E_pos_int h str sty z x y u Hh Hc Hx3 Hy2). ni. }
    nexttok Hr3 v r4 Hr4.
    is_ty v RPAREN Hv1.
    { left. exists [z; x; y; u]. eexists. exists v, r4. split; [reflexivity|]. split; [|exact Hv1].
      eapply P_pos; [exact Hc|apply (Pos_font_max x y u Hx3 Hy2 Hu2)]. }
    is_ty v COMMA Hv2.
    2:{ right. exists [z; x; y; u; v], r4. eexists. split; [reflexivity|].
        eapply (E_close_pos h str sty z [x; y; u] true _ _ v Hh Hc (Pos_font_max x y u Hx3 Hy2 Hu2)). ni. }
    nexttok Hr4 q r5 Hr5.
    is_ty q IDENT Hq1.
    { exact (named_part_classify h str sty (z :: [x; y; u] ++ [v]) _ _ true q r5 Hh
               (NC_pos z [x; y; u] true _ _ v Hc (Pos_font_max x y u Hx3 Hy2 Hu2) Hv2) Hr5 Hq1). }
    is_ty q RPAREN Hq2.
    { left. exists (z :: [x; y; u] ++ v :: []). eexists. exists q, r5. split; [reflexivity|]. split; [|exact Hq2].
      eapply P_pos_named; [exact Hc|apply (Pos_font_max x y u Hx3 Hy2 Hu2)|exact Hv2|apply NS_nil|left; reflexivity]. }
    right. exists [z; x; y; u; v; q], r5. eexists. split; [reflexivity|].
    eapply (E_close_pos2 h str sty z [x; y; u] _ _ v q Hh Hc (Pos_font_max x y u Hx3 Hy2 Hu2) Hv2). ni. }
  right. exists [z; x], r1. eexists. split; [reflexivity|]. eapply (E_no_param h str sty z x Hh Hc). ni.
Qed.

(* THE EXHAUSTIVENESS THEOREM *)
Theorem format_call_or_error ts :
  eof_ended ts -> ttype (cur ts) = FORMAT ->
  (exists l R rp ttok sty w, ts = l ++ R /\ format_call l rp ttok sty w) \/
  (exists l R e, ts = l ++ R /\ format_error l e).
Proof.
  intros Hr Hf. destruct ts as [|fmt r]; [destruct Hr; congruence|]. cbn [cur hd] in Hf.
  nexttok Hr lp r1 Hr1.
  is_ty lp LPAREN Hlp.
  2:{ right. exists [fmt; lp], r1. eexists. split; [reflexivity|]. apply E_lparen. exact Hlp. }
  nexttok Hr1 y r2 Hr2.
  assert (HEAD : forall styl sty str r3, stype_opt styl sty -> ttype str = STRING -> eof_ended (str :: r3) ->
            (exists l R rp ttok sty w, fmt :: lp :: styl ++ str :: r3 = l ++ R /\ format_call l rp ttok sty w) \/
            (exists l R e, fmt :: lp :: styl ++ str :: r3 = l ++ R /\ format_error l e)).
  { intros styl sty str r3 Hst Hstr Hr3.
    assert (Hh : call_head (fmt :: lp :: styl ++ [str]) str sty) by (apply CH; assumption).
    nexttok Hr3 z r4 Hr4.
    destruct (params_classify _ str sty z r4 Hh Hr4) as [(ps & w & rp & R & E & Hp & Hrp)|(l & R & e & E & He)].
    - left. exists (fmt :: lp :: styl ++ str :: ps ++ [rp]), R, rp, str, sty, w. split.
      + rewrite E. cbn [app]. rewrite <- !app_assoc. cbn [app]. rewrite <- !app_assoc. reflexivity.
      + apply FC; assumption.
    - right. exists ((fmt :: lp :: styl ++ [str]) ++ l), R, e. split; [|exact He].
      rewrite E. cbn [app]. rewrite <- !app_assoc. reflexivity. }
  is_ty y STRINGTYPE Hy1.
  { nexttok Hr2 y2 r3 Hr3.
    is_ty y2 STRING Hy2.
    - exact (HEAD [y] (tlit y) y2 r3 (ST_some y Hy1) Hy2 Hr3).
    - right. exists (fmt :: lp :: [y] ++ [y2]), r3. eexists. split; [reflexivity|].
      apply (E_string fmt lp [y] (tlit y) y2 Hlp (ST_some y Hy1) Hy2). discriminate. }
  is_ty y STRING Hy2.
  - exact (HEAD [] [] y r2 ST_none Hy2 Hr2).
  - right. exists (fmt :: lp :: [] ++ [y]), r2. eexists. split; [reflexivity|].
    apply (E_string fmt lp [] [] y Hlp ST_none Hy2). intros _. exact Hy1.
Qed.

(* the two theorems together: on every such stream parse_format returns either the result of a call of the grammar or the
   located error of the catalogue - never Panic, never Fuel *)
Theorem parse_format_characterised fc cli_font cli_maxlen ee ts :
  eof_ended ts -> ttype (cur ts) = FORMAT ->
  (exists l R rp ttok sty w, ts = l ++ R /\ format_call l rp ttok sty w /\
      parse_format fc cli_font cli_maxlen ee ts = call_result fc cli_font cli_maxlen ee ttok sty w (rp :: R)) \/
  (exists l R e, ts = l ++ R /\ format_error l e /\ parse_format fc cli_font cli_maxlen ee ts = Err e).
Proof.
  intros Hr Hf. destruct (format_call_or_error ts Hr Hf) as [(l & R & rp & ttok & sty & w & E & H)|(l & R & e & E & H)].
  - left. exists l, R, rp, ttok, sty, w. split; [exact E|]. split; [exact H|]. rewrite E. apply parse_format_call. exact H.
  - right. exists l, R, e. split; [exact E|]. split; [exact H|]. rewrite E. apply format_error_located. exact H.
Qed.

(* CONVERSE of parse_format_call: whatever parse_format accepts is a call of the grammar, it has consumed exactly the tokens
   of the call, and the text is format_text with the chosen parameters (or empty: unknown font in lint mode) *)
Theorem parse_format_ok_inv fc cli_font cli_maxlen ee ts ttok out sty ts' :
  eof_ended ts -> ttype (cur ts) = FORMAT ->
  parse_format fc cli_font cli_maxlen ee ts = Ok (ttok, out, sty, ts') ->
  exists l R rp w, ts = l ++ R /\ format_call l rp ttok sty w /\ ts' = rp :: R /\
    (format_text fc (tlit ttok) (chosen_max fc cli_font cli_maxlen w) (chosen_cursor fc cli_font w) (chosen_font fc cli_font w)
                 (chosen_lines fc cli_font w) = Some out \/
     (ee = false /\ unknown_font fc (chosen_font fc cli_font w) /\ out = [])).
Proof.
  intros Hr Hf H.
  destruct (parse_format_characterised fc cli_font cli_maxlen ee ts Hr Hf)
    as [(l & R & rp & ttok0 & sty0 & w & E & Hc & P)|(l & R & e & E & He & P)]; [|congruence].
  rewrite P in H. unfold call_result in H.
  destruct (format_text fc (tlit ttok0) _ _ _ _) as [out0|] eqn:F.
  - inversion H; subst. exists l, R, rp, w. split; [reflexivity|]. split; [exact Hc|]. split; [reflexivity|]. left. exact F.
  - destruct ee; [discriminate H|]. inversion H; subst. exists l, R, rp, w. split; [reflexivity|]. split; [exact Hc|].
    split; [reflexivity|]. right. split; [reflexivity|]. split; [|reflexivity]. apply format_text_none_iff in F. exact F.
Qed.

(* every error of parse_format is one of the catalogue, or the unknown-font error of a complete call *)
Theorem parse_format_err_inv fc cli_font cli_maxlen ee ts e :
  eof_ended ts -> ttype (cur ts) = FORMAT ->
  parse_format fc cli_font cli_maxlen ee ts = Err e ->
  (exists l R, ts = l ++ R /\ format_error l e) \/
  (ee = true /\ exists l R rp ttok sty w, ts = l ++ R /\ format_call l rp ttok sty w /\ unknown_font fc (chosen_font fc cli_font w) /\
     e = perr_tok (match wFont w with Some tk => tk | None => ttok end) "unknown fontID").
Proof.
  intros Hr Hf H.
  destruct (parse_format_characterised fc cli_font cli_maxlen ee ts Hr Hf)
    as [(l & R & rp & ttok0 & sty0 & w & E & Hc & P)|(l & R & e0 & E & He & P)].
  - right. rewrite P in H. unfold call_result in H.
    destruct (format_text fc (tlit ttok0) _ _ _ _) as [out0|] eqn:F; [discriminate H|]. destruct ee; [|discriminate H].
    split; [reflexivity|]. exists l, R, rp, ttok0, sty0, w. split; [exact E|]. split; [exact Hc|].
    split; [apply format_text_none_iff in F; exact F|]. rewrite err_tok_perr in H. inversion H. reflexivity.
  - left. exists l, R. split; [exact E|]. rewrite P in H. inversion H. subst. exact He.
Qed.

Theorem parse_format_no_panic_no_fuel fc cli_font cli_maxlen ee ts :
  eof_ended ts -> ttype (cur ts) = FORMAT ->
  parse_format fc cli_font cli_maxlen ee ts <> Panic /\ parse_format fc cli_font cli_maxlen ee ts <> Fuel.
Proof.
  intros Hr Hf.
  destruct (parse_format_characterised fc cli_font cli_maxlen ee ts Hr Hf)
    as [(l & R & rp & ttok0 & sty0 & w & E & Hc & P)|(l & R & e0 & E & He & P)]; rewrite P.
  - unfold call_result. destruct (format_text _ _ _ _ _ _); [split; discriminate|]. destruct ee; split; discriminate.
  - split; discriminate.
Qed.

(* ====================================================================================================== *)
(* PART 11 - joined with the theorems on format_text (Properties_C07): the lines of an accepted call fit the box of the
   CHOSEN font, with the CHOSEN maxLineLength / cursorOverlapWidth / numLines, and keep the words of the text token   *)
(* ====================================================================================================== *)
From Pory Require FmtLayout FmtRefine FormatWords.

Theorem format_call_lines_fit fc cli_font cli_maxlen ee l rp ttok sty w R :
  format_call l rp ttok sty w -> usable_font fc (chosen_font fc cli_font w) ->
  let id := chosen_font fc cli_font w in
  let maxW := chosen_max fc cli_font cli_maxlen w in
  let cursor := chosen_cursor fc cli_font w in
  let numLines := chosen_lines fc cli_font w in
  let txt := map (fun c : N => if (c =? 10)%N then 32%N else c) (tlit ttok) in
  let spaceW := rune_width fc 32 id in
  let width := fun x : text => word_width fc x id in
  exists out ls,
    parse_format fc cli_font cli_maxlen ee (l ++ R) = Ok (ttok, out, sty, rp :: R) /\
    out = FmtRefine.print_lines ls /\
    Forall2 (fun (i : Z) (ln : FmtLayout.line text) =>
               FmtLayout.line_ok text width spaceW maxW cursor numLines i ln /\ FmtLayout.disc_ok text numLines i ln)
            (FmtLayout.indices text 0 ls) ls /\
    FormatWords.lines_src text numLines 0 ls (map FmtRefine.classify (FormatWords.words_of txt)).
Proof.
  intros H U id maxW cursor numLines txt spaceW width.
  destruct (parse_format_usable_font fc cli_font cli_maxlen ee l rp ttok sty w R H U) as (out & F & P).
  destruct (FormatWords.format_text_from_source fc (tlit ttok) maxW cursor id numLines out F) as (ls & E & A & B & _).
  exists out, ls. split; [exact P|]. split; [exact E|]. split; [exact A|exact B].
Qed.

(* ====================================================================================================== *)
(* PART 12 - further concrete inputs: hypotheses of the error theorems are satisfiable; quirks of the grammar *)
(* ====================================================================================================== *)
Module Ex2.
Import Ex.
Open Scope string_scope.
Open Scope list_scope.
(* a duplicate named parameter: located at the second name *)
Definition src2 : string := "format(""Hi"", numLines=3, numLines=4)".
Definition d_fmt := tk FORMAT "format" 0 6.      Definition d_lp := tk LPAREN "(" 6 7.
Definition d_txt := tk STRING "Hi" 7 11.         Definition d_c1 := tk COMMA "," 11 12.
Definition d_n1 := tk IDENT "numLines" 13 21.    Definition d_e1 := tk ASSIGN "=" 21 22.
Definition d_3 := tk INT "3" 22 23.              Definition d_c2 := tk COMMA "," 23 24.
Definition d_n2 := tk IDENT "numLines" 25 33.    Definition d_e2 := tk ASSIGN "=" 33 34.
Definition d_4 := tk INT "4" 34 35.              Definition d_rp := tk RPAREN ")" 35 36.
Definition d_eof := tk EOF "" 36 36.
Definition bad : list token := [d_fmt; d_lp; d_txt; d_c1; d_n1; d_e1; d_3; d_c2; d_n2; d_e2].
Example lexed2 : lex nf nf nf (t src2) = bad ++ [d_4; d_rp; d_eof].
Proof. vm_compute. reflexivity. Qed.
Example duplicate_in_catalogue : format_error bad (perr_tok d_n2 "duplicate parameter").
Proof.
  apply (E_duplicate [d_fmt; d_lp; d_txt] d_txt [] [d_c1] [] w0 false [d_n1; d_e1; d_3; d_c2] [t "numLines"]
           (write (t "numLines") d_3 w0) d_n2 d_e2); try reflexivity.
  - apply (CH d_fmt d_lp [] [] d_txt); try reflexivity. constructor.
  - constructor. reflexivity.
  - apply (NS_item [] w0 d_n1 d_e1 d_3 [d_c2] [] [t "numLines"] (write (t "numLines") d_3 w0)); try reflexivity.
    + right; right; left; reflexivity.
    + intros [].
    + constructor. reflexivity.
    + apply NS_nil.
  - right; right; left; reflexivity.
  - left. reflexivity.
Qed.
Example duplicate_result :
  parse_format cfg [] 0 true (lex nf nf nf (t src2)) = Err (perr_tok d_n2 "duplicate parameter").
Proof. vm_compute. reflexivity. Qed.

(* quirks of the grammar, all accepted by the model (and by the Go parser):
   - the comma between named parameters is optional:                     format("Hi", numLines=3 cursorOverlapWidth=2)
   - the SECOND positional parameter may be given again by name (the name wins), the first may not:
                                                                         format("Hi", "small", 100, maxLineLength=40)
   - `, )` is accepted after two positional parameters, rejected after one  *)
Definition q (ty : toktype) (s : string) : token := tk ty s 0 0.
Example named_without_comma :
  exists w, format_call [q FORMAT "format"; q LPAREN "("; q STRING "Hi"; q COMMA ","; q IDENT "numLines"; q ASSIGN "="; q INT "3";
                         q IDENT "cursorOverlapWidth"; q ASSIGN "="; q INT "2"; q RPAREN ")"] (q RPAREN ")") (q STRING "Hi") [] w
            /\ wLines w = Some 3%Z /\ wCursor w = Some 2%Z.
Proof.
  eexists. split.
  - apply (FC (q FORMAT "format") (q LPAREN "(") [] [] (q STRING "Hi")
             [q COMMA ","; q IDENT "numLines"; q ASSIGN "="; q INT "3"; q IDENT "cursorOverlapWidth"; q ASSIGN "="; q INT "2"] _ (q RPAREN ")"));
      try reflexivity; [constructor|].
    eapply (P_named (q COMMA ",") _ _ _ eq_refl); [|discriminate].
    apply (NS_item [] w0 (q IDENT "numLines") (q ASSIGN "=") (q INT "3") [] [q IDENT "cursorOverlapWidth"; q ASSIGN "="; q INT "2"]); try reflexivity.
    + right; right; left; reflexivity.
    + intros [].
    + constructor.
    + apply (NS_item _ _ (q IDENT "cursorOverlapWidth") (q ASSIGN "=") (q INT "2") [] []); try reflexivity.
      * right; right; right; left; reflexivity.
      * intros [H|[]]. discriminate H.
      * constructor.
      * apply NS_nil.
  - split; reflexivity.
Qed.
Example second_positional_overridden_by_name :
  exists w, format_call [q FORMAT "format"; q LPAREN "("; q STRING "Hi"; q COMMA ","; q STRING "small"; q COMMA ","; q INT "100"; q COMMA ",";
                         q IDENT "maxLineLength"; q ASSIGN "="; q INT "40"; q RPAREN ")"] (q RPAREN ")") (q STRING "Hi") [] w
            /\ wMax w = Some 40%Z /\ chosen_max cfg [] 0 w = 40%Z.
Proof.
  eexists. split.
  - apply (FC (q FORMAT "format") (q LPAREN "(") [] [] (q STRING "Hi")
             [q COMMA ","; q STRING "small"; q COMMA ","; q INT "100"; q COMMA ","; q IDENT "maxLineLength"; q ASSIGN "="; q INT "40"] _ (q RPAREN ")"));
      try reflexivity; [constructor|].
    eapply (P_pos_named (q COMMA ",") [q STRING "small"; q COMMA ","; q INT "100"] true _ _ (q COMMA ",") [q IDENT "maxLineLength"; q ASSIGN "="; q INT "40"]);
      try reflexivity; [apply (Pos_font_max (q STRING "small") (q COMMA ",") (q INT "100")); reflexivity| |left; reflexivity].
    apply (NS_item _ _ (q IDENT "maxLineLength") (q ASSIGN "=") (q INT "40") [] []); try reflexivity.
    + right; left; reflexivity.
    + intros [H|[]]. discriminate H.
    + constructor.
    + apply NS_nil.
  - split; reflexivity.
Qed.
Example first_positional_not_overridable :
  parse_format cfg [] 0 true [q FORMAT "format"; q LPAREN "("; q STRING "Hi"; q COMMA ","; q STRING "small"; q COMMA ","; q INT "100"; q COMMA ",";
                              q IDENT "fontId"; q ASSIGN "="; q STRING "normal"; q RPAREN ")"; q EOF ""]
  = Err (perr_tok (q IDENT "fontId") "duplicate parameter").
Proof. vm_compute. reflexivity. Qed.

(* pint = `num, _ := strconv.ParseInt(lit, 0, 64)`: the value, 0 on a SYNTAX error, the saturated value on a RANGE error - so
   `format("..", 99999999999999999999)` never breaks a line. (An earlier version of the model answered 0 for a range error; this
   file's proof found the difference to the Go code, the model was corrected and out-of-range literals joined the C07 generator.) *)
Example pint_out_of_range : pint (t "99999999999999999999") = 9223372036854775807%Z /\ pint (t "-99999999999999999999") = (-9223372036854775808)%Z /\
  pint (t "0x") = 0%Z /\ pint (t "010") = 8%Z /\ pint (t "0x7fffffffffffffff") = 9223372036854775807%Z.
Proof. vm_compute. repeat split; reflexivity. Qed.
End Ex2.

(* the stream hypothesis of PART 10 is the one of Consume.v / ProgSrc.lex_eof (the lexer's output satisfies it, and so does
   every stream reached from it by advancing: Consume.advs_eof) *)
From Pory Require Consume.
Lemma eof_ended_consume ts : eof_ended ts <-> Consume.eof_ended ts.
Proof. split; intros H; exact H. Qed.

(* ====================================================================================================== *)
(* PART 13 - what a NAMED sequence writes: each named parameter's value is the one recorded, the others are untouched *)
(* ====================================================================================================== *)
Definition field_is (name : text) (v : token) (w : written) : Prop :=
  if text_eqb name (t "fontId") then wFont w = Some v
  else if text_eqb name (t "maxLineLength") then wMax w = Some (pint (tlit v))
  else if text_eqb name (t "numLines") then wLines w = Some (pint (tlit v))
  else wCursor w = Some (pint (tlit v)).
Definition same_field (name : text) (w w' : written) : Prop :=
  if text_eqb name (t "fontId") then wFont w' = wFont w
  else if text_eqb name (t "maxLineLength") then wMax w' = wMax w
  else if text_eqb name (t "numLines") then wLines w' = wLines w
  else wCursor w' = wCursor w.

Lemma write_field name v w : field_is name v (write name v w).
Proof.
  unfold field_is, write. destruct (text_eqb name (t "fontId")); [reflexivity|].
  destruct (text_eqb name (t "maxLineLength")); [reflexivity|]. destruct (text_eqb name (t "numLines")); reflexivity.
Qed.
Lemma same_field_refl name w : same_field name w w.
Proof. unfold same_field. repeat (destruct (text_eqb name _); [reflexivity|]). reflexivity. Qed.
Lemma same_field_trans name a b c : same_field name a b -> same_field name b c -> same_field name a c.
Proof. unfold same_field. repeat (destruct (text_eqb name _); [congruence|]). congruence. Qed.
Lemma field_same name v w w' : field_is name v w -> same_field name w w' -> field_is name v w'.
Proof. unfold field_is, same_field. repeat (destruct (text_eqb name _); [congruence|]). congruence. Qed.
Lemma write_other name n v w : In name named_params -> In n named_params -> n <> name -> same_field name w (write n v w).
Proof.
  intros H1 H2 N.
  destruct H1 as [E1|[E1|[E1|[E1|[]]]]]; destruct H2 as [E2|[E2|[E2|[E2|[]]]]]; subst name n;
    try (exfalso; apply N; reflexivity); unfold same_field, write; text_eval; reflexivity.
Qed.
Lemma named_seq_grows spec w ln spec' w' : named_seq spec w ln spec' w' -> forall x, In x spec -> In x spec'.
Proof. induction 1 as [|spec w id eq v sep l spec' w' _ _ _ _ _ _ _ IH]; intros x Hx; [exact Hx|]. apply IH. right. exact Hx. Qed.

(* a name already specified is not written again *)
Lemma named_seq_frozen spec w ln spec' w' :
  named_seq spec w ln spec' w' -> forall name, In name named_params -> In name spec -> same_field name w w'.
Proof.
  induction 1 as [|spec w id eq v sep l spec' w' Hid Hin Hns Heq Hv Hsep Hl IH]; intros name Hn Hs; [apply same_field_refl|].
  eapply same_field_trans; [|apply IH; [exact Hn|right; exact Hs]].
  apply write_other; [exact Hn|exact Hin|]. intros E. apply Hns. rewrite E. exact Hs.
Qed.
(* a name that is not among the specified ones at the end has not been written *)
Theorem named_seq_unwritten spec w ln spec' w' :
  named_seq spec w ln spec' w' -> forall name, In name named_params -> ~ In name spec' -> same_field name w w'.
Proof.
  induction 1 as [|spec w id eq v sep l spec' w' Hid Hin Hns Heq Hv Hsep Hl IH]; intros name Hn Hs; [apply same_field_refl|].
  eapply same_field_trans; [|apply IH; [exact Hn|exact Hs]].
  apply write_other; [exact Hn|exact Hin|]. intros E. apply Hs. eapply named_seq_grows; [exact Hl|]. left. exact E.
Qed.
(* every `name = value` of the sequence is what the final record holds for that name *)
Theorem named_seq_written spec w ln spec' w' :
  named_seq spec w ln spec' w' -> forall l1 id eq v l2, ln = l1 ++ id :: eq :: v :: l2 -> ttype id = IDENT ->
  field_is (tlit id) v w'.
Proof.
  induction 1 as [|spec w id0 eq0 v0 sep l spec' w' Hid Hin Hns Heq Hv Hsep Hl IH]; intros l1 id eq v l2 E Ht.
  { destruct l1; discriminate E. }
  assert (Hv0 : ttype v0 <> IDENT).
  { rewrite Hv. unfold value_type. destruct (text_eqb _ _); discriminate. }
  destruct l1 as [|a l1]; cbn [app] in E.
  { inversion E; subst. eapply field_same; [apply write_field|].
    eapply named_seq_frozen; [exact Hl|exact Hin|left; reflexivity]. }
  inversion E as [[Ea E1]]. subst a. destruct l1 as [|a l1]; cbn [app] in E1.
  { inversion E1; subst. congruence. }
  inversion E1 as [[Ea E2]]. subst a. destruct l1 as [|a l1]; cbn [app] in E2.
  { inversion E2; subst. congruence. }
  inversion E2 as [[Ea E3]]. subst a. destruct Hsep as [|c Hc]; cbn [app] in E3.
  { eapply IH; [exact E3|exact Ht]. }
  destruct l1 as [|a l1]; cbn [app] in E3.
  { inversion E3; subst. congruence. }
  inversion E3 as [[Ea E4]]. subst a. eapply IH; [exact E4|exact Ht].
Qed.

(* the same at the level of the parameter list of a call: a `name = value` anywhere in it is what the call writes for that name
   (in particular a named maxLineLength= / fontId= after the positional parameters overrides the second positional one) *)
Lemma split_after_non_ident (pre ln l1 : list token) id rest :
  Forall (fun x => ttype x <> IDENT) pre -> ttype id = IDENT -> pre ++ ln = l1 ++ id :: rest ->
  exists l1', l1 = pre ++ l1' /\ ln = l1' ++ id :: rest.
Proof.
  intros Hpre Hid. revert l1. induction Hpre as [|a pre Ha Hpre IH]; intros l1 E.
  - exists l1. split; [reflexivity|exact E].
  - destruct l1 as [|b l1]; cbn [app] in E.
    + inversion E; subst. contradiction.
    + inversion E as [[Eb E1]]. subst b. destruct (IH l1 E1) as (l1' & -> & E2). exists l1'. split; [reflexivity|exact E2].
Qed.
Lemma positional_non_ident l both spec w : positional l both spec w -> Forall (fun x => ttype x <> IDENT) l.
Proof.
  intros H. destruct H; repeat constructor;
    match goal with H : ttype ?x = _ |- ttype ?x <> _ => rewrite H; discriminate end.
Qed.
Theorem params_named_value ps w :
  params ps w -> forall l1 id eq v l2, ps = l1 ++ id :: eq :: v :: l2 -> ttype id = IDENT -> field_is (tlit id) v w.
Proof.
  intros H l1 id eq v l2 E Hid.
  destruct H as [|c l both spec w Hc Hl|c l both spec w c2 ln spec' w' Hc Hl Hc2 Hn Hb|c ln spec' w' Hc Hn Hne].
  - destruct l1; discriminate E.
  - exfalso. assert (F : Forall (fun x => ttype x <> IDENT) (c :: l)).
    { constructor; [rewrite Hc; discriminate|eapply positional_non_ident; exact Hl]. }
    rewrite E in F. apply Forall_app in F. destruct F as [_ F]. inversion F; subst. contradiction.
  - assert (F : Forall (fun x => ttype x <> IDENT) (c :: l ++ [c2])).
    { constructor; [rewrite Hc; discriminate|]. apply Forall_app. split; [eapply positional_non_ident; exact Hl|].
      constructor; [rewrite Hc2; discriminate|constructor]. }
    assert (E' : (c :: l ++ [c2]) ++ ln = l1 ++ id :: eq :: v :: l2) by (cbn [app]; rewrite <- app_assoc; exact E).
    destruct (split_after_non_ident _ _ _ _ _ F Hid E') as (l1' & _ & E2).
    eapply named_seq_written; [exact Hn|exact E2|exact Hid].
  - assert (F : Forall (fun x => ttype x <> IDENT) [c]) by (constructor; [rewrite Hc; discriminate|constructor]).
    destruct (split_after_non_ident [c] ln l1 id _ F Hid E) as (l1' & _ & E2).
    eapply named_seq_written; [exact Hn|exact E2|exact Hid].
Qed.

Lemma named_seq_spec_origin spec w ln spec' w' :
  named_seq spec w ln spec' w' -> forall x, In x spec' -> In x spec \/ exists id, In id ln /\ ttype id = IDENT /\ tlit id = x.
Proof.
  induction 1 as [|spec w id eq v sep l spec' w' Hid Hin Hns Heq Hv Hsep Hl IH]; intros x Hx; [left; exact Hx|].
  destruct (IH x Hx) as [[E|H]|(id' & I & T & E)].
  - right. exists id. split; [left; reflexivity|]. split; [exact Hid|exact E].
  - left. exact H.
  - right. exists id'. split; [|split; [exact T|exact E]]. right. right. right. apply in_or_app. right. exact I.
Qed.

(* a parameter that is NOT given by name keeps what the positional part wrote for it (nothing, when there is no positional part) *)
Theorem params_unnamed_field ps w name :
  params ps w -> In name named_params -> (forall id, In id ps -> ttype id = IDENT -> tlit id <> name) ->
  exists wp, same_field name wp w /\
             (wp = w0 \/ exists c l both spec rest, ps = c :: l ++ rest /\ ttype c = COMMA /\ positional l both spec wp).
Proof.
  intros H Hn Hno.
  destruct H as [|c l both spec w Hc Hl|c l both spec w c2 ln spec' w' Hc Hl Hc2 Hs Hb|c ln spec' w' Hc Hs Hne].
  - exists w0. split; [apply same_field_refl|left; reflexivity].
  - exists w. split; [apply same_field_refl|]. right. exists c, l, both, spec, []. rewrite app_nil_r. auto.
  - exists w. split; [|right; exists c, l, both, spec, (c2 :: ln); auto].
    destruct (In_dec_text name spec) as [I|I]; [eapply named_seq_frozen; eassumption|].
    eapply named_seq_unwritten; [exact Hs|exact Hn|]. intros I'.
    destruct (named_seq_spec_origin _ _ _ _ _ Hs name I') as [I2|(id & I2 & T & E)]; [contradiction|].
    apply (Hno id); [|exact T|exact E]. right. apply in_or_app. right. right. exact I2.
  - exists w0. split; [|left; reflexivity].
    eapply named_seq_unwritten; [exact Hs|exact Hn|]. intros I'.
    destruct (named_seq_spec_origin _ _ _ _ _ Hs name I') as [[]|(id & I2 & T & E)].
    apply (Hno id); [|exact T|exact E]. right. exact I2.
Qed.

(* the hypotheses of PART 10 hold of the lexed example inputs *)
Module Ex3.
Import Ex Ex2.
Example stream_hypotheses :
  eof_ended (lex nf nf nf (t src)) /\ ttype (cur (lex nf nf nf (t src))) = FORMAT /\
  eof_ended (lex nf nf nf (t src2)) /\ ttype (cur (lex nf nf nf (t src2))) = FORMAT.
Proof. repeat split; try discriminate; vm_compute; reflexivity. Qed.
(* and params_named_value on the first example: numLines=3 is what the call writes for numLines *)
Example named_value_here : field_is (t "numLines") k_3 wr.
Proof. reflexivity. Qed.
End Ex3.
