#!/usr/bin/env python3
"""Regenerates the block of one-step unfolding lemmas (proved by reflexivity) that follows the mutual
statement-parser fixpoint in coq/Parser.v, between the markers BEGIN UNFOLD / END UNFOLD.
They let proofs about the mutually recursive parser functions rewrite one call into its body with
the sibling functions still named."""
import re, sys, os
path = os.path.join(os.path.dirname(os.path.dirname(os.path.abspath(__file__))), 'coq', 'Parser.v')
src = open(path).read()
src = re.sub(r'\(\* BEGIN UNFOLD[^\n]*\*\).*?\(\* END UNFOLD \*\)\n', '', src, flags=re.S)
BLOCKS = [('Fixpoint list_value ', 'Definition movement_value'),
          ('Fixpoint bool_expr ', '\n(* ---------- statements ---------- *)'),
          ('Fixpoint parse_stmt ', '(* ---------- top-level statements that only read the constants ---------- *)')]
total = 0
for (smark, emark) in BLOCKS:
    start = src.index(smark)
    end = src.index(emark, start)
    block = src[start:end].rstrip()
    assert block.endswith('.'), block[-80:]
    block = block[:-1]
    parts = re.split(r'\n(?:\(\*[^\n]*\*\)\n)?with ', '\n' + block[len('Fixpoint '):])
    parts[0] = parts[0].lstrip('\n')
    lemmas = []
    for p in parts:
        m = re.match(r'(\w+) \(fuel : nat\)(.*?)\{struct fuel\}\s*:\s*(.*?):=\s*match fuel with O => Fuel \| S f =>(.*)\bend\s*$', p, re.S)
        assert m, p[:200]
        name, binders, ty, body = m.group(1), m.group(2).strip(), m.group(3), m.group(4)
        names = []
        for b in re.findall(r'\(([^()]*?):', binders):
            names += b.split()
        lemmas.append('Lemma %s_unfold f %s :\n  %s (S f) %s =\n%s.\nProof. reflexivity. Qed.\n' % (name, binders, name, ' '.join(names), body.rstrip()))
    src = src[:end] + '\n(* BEGIN UNFOLD ' + parts[0].split(' ')[0] + ' *)\n' + '\n'.join(lemmas) + '(* END UNFOLD *)\n' + src[end:]
    total += len(lemmas)
open(path, 'w').write(src)
print('generated', total, 'unfolding lemmas')
