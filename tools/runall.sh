#!/bin/bash
# developer helper: generate + drive every property once, print a one-line summary each
cd "$(dirname "$0")/../build"
for p in ${@:-C01 C02 C03 C04 C05 C06 C07 C08 C09 C10 C11 C12 C13 C14 C15 C16 C17 C18 C19 C20}; do
  ./bin/gencases -prop $p -tier ${TIER:-quick} -seed ${VERIF_SEED:-1} > $p.cases 2>/dev/null
  s=$(date +%s.%N); ./driver $p.cases ${SEM:-semmis} > $p.out 2>&1; e=$(date +%s.%N)
  echo "$p $(echo "$e - $s" | bc | cut -c1-5)s $(grep -c ^MISMATCH $p.out) mism $(grep -c ^FAIL $p.out) fail $(grep ^SUMMARY $p.out | cut -f2 | cut -c1-60)"
done
