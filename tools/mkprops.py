#!/usr/bin/env python3
"""mkprops.py <imports-line> <Module> name1 name2 ... : print `Theorem name : <closed statement>. Proof. exact Module.name. Qed.` blocks"""
import sys, subprocess, re
imports, mod, names = sys.argv[1], sys.argv[2], sys.argv[3:]
src = imports + "\nSet Printing Width 150.\nSet Printing Depth 10000.\n" + "".join('Check %s.%s.\n' % (mod, n) for n in names)
r = subprocess.run(['coqtop', '-Q', '/verif/coq', 'Pory'], input=src, capture_output=True, text=True, timeout=900)
out = r.stdout
res = {}
lines = out.split('\n')
i = 0
while i < len(lines):
    if (lines[i].strip() in names or (lines[i].strip().startswith(mod + '.') and lines[i].strip()[len(mod) + 1:] in names)) and i + 1 < len(lines) and lines[i + 1].lstrip().startswith(': '):
        n = lines[i].strip()
        n = n[len(mod) + 1:] if n.startswith(mod + '.') else n
        body = [lines[i + 1].lstrip()[2:]]
        j = i + 2
        while j < len(lines) and lines[j].startswith(' ') and lines[j].strip():
            body.append(lines[j][7:] if lines[j].startswith('       ') else lines[j].lstrip())
            j += 1
        res[n] = '\n'.join(body)
        i = j
    else:
        i += 1
for n in names:
    if n not in res:
        sys.stderr.write('MISSING %s\n%s\n' % (n, out[-2000:]))
        continue
    print('Theorem %s :\n  %s.\nProof. exact %s.%s. Qed.\nPrint Assumptions %s.\n' % (n, res[n].replace('\n', '\n  '), mod, n, n))
