#!/usr/bin/env python3
"""developer helper: print one case line of a case file in readable form: showcase.py <casefile> <index>"""
import sys, binascii, difflib
def unhex(s):
    try: return binascii.unhexlify(s).decode('utf8', 'replace')
    except Exception: return s
lines = open(sys.argv[1]).read().split('\n')
f = lines[int(sys.argv[2]) - 1].split('\t')
print(f[0], [x for x in f[1:] if len(x) < 40])
if f[0] == 'META':
    a, b = unhex(f[2]), unhex(f[3])
    print('--- A\n' + a + '--- B\n' + b)
    ra, rb = f[4], f[5]
    oa = unhex(ra[3:]) if ra.startswith('OK:') else ra
    ob = unhex(rb[3:]) if rb.startswith('OK:') else rb
    print('--- result diff')
    for l in difflib.unified_diff(oa.split('\n'), ob.split('\n'), lineterm='', n=2): print(l)
elif f[0] == 'CASE':
    print('--- src\n' + unhex(f[10])); print('--- result', f[11]); print(unhex(f[12]) if f[11] == 'OK' else f[12])
else:
    for x in f[1:]: print(unhex(x) if len(x) > 20 else x)
