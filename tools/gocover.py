#!/usr/bin/env python3
"""Statement coverage of the Go packages of /repo by the generated cases of the correspondence check (a measure of generator
quality, DESIGN.md section 7; not a check).  usage: tools/gocover.py [quick|thorough] [Cxx ...]
Builds the harness with `go build -cover -coverpkg=all` in a scratch copy, runs the generators, prints per-package coverage and
the source blocks of lexer / parser / emitter that no generated case executed."""
import sys, os, subprocess, shutil, tempfile, re
ROOT = os.path.dirname(os.path.dirname(os.path.abspath(__file__)))
REPO = os.environ.get('PORY_REPO', '/repo')
ENV = dict(os.environ, GOFLAGS='-mod=mod', GOPROXY='off', GOSUMDB='off', GOTOOLCHAIN='local')
tier = sys.argv[1] if len(sys.argv) > 1 and sys.argv[1] in ('quick', 'thorough') else 'quick'
props = [a for a in sys.argv[1:] if re.match(r'C\d\d$', a)] or ['C%02d' % i for i in range(1, 21)]
tmp = tempfile.mkdtemp(prefix='gocover_')
try:
    h = os.path.join(tmp, 'h')
    shutil.copytree(os.path.join(ROOT, 'harness'), h)
    gm = open(os.path.join(h, 'go.mod')).read()
    gm = re.sub(r'^go 1\.\d+.*$', 'go 1.21', gm, flags=re.M)
    gm = re.sub(r'^replace .*$', 'replace github.com/huderlem/poryscript => %s' % REPO, gm, flags=re.M)
    open(os.path.join(h, 'go.mod'), 'w').write(gm)
    shutil.copy(os.path.join(REPO, 'go.sum'), h) if os.path.exists(os.path.join(REPO, 'go.sum')) else None
    b = os.path.join(tmp, 'gencases_cov')
    subprocess.run(['go', 'build', '-cover', '-coverpkg=all', '-o', b, './cmd/gencases'], cwd=h, env=ENV, check=True)
    data = os.path.join(tmp, 'data')
    os.makedirs(data)
    for p in props:
        subprocess.run([b, '-prop', p, '-tier', tier, '-seed', os.environ.get('VERIF_SEED', '1')], env=dict(ENV, GOCOVERDIR=data), stdout=subprocess.DEVNULL, stderr=subprocess.DEVNULL)
    pk = ','.join('github.com/huderlem/poryscript/' + x for x in ('lexer', 'parser', 'emitter', 'token'))
    r = subprocess.run(['go', 'tool', 'covdata', 'percent', '-i=' + data, '-pkg=' + pk], cwd=h, env=ENV, capture_output=True, text=True)
    print(r.stdout.strip())
    prof = os.path.join(tmp, 'profile.txt')
    subprocess.run(['go', 'tool', 'covdata', 'textfmt', '-i=' + data, '-pkg=' + pk, '-o', prof], cwd=h, env=ENV, check=True)
    un = sorted({l.split(' ')[0] for l in open(prof) if not l.startswith('mode') and l.rstrip().endswith(' 0')})
    print('%d blocks never executed (tier %s, %d properties):' % (len(un), tier, len(props)))
    for u in un:
        m = re.match(r'github.com/huderlem/poryscript/(.*?):(\d+)\.', u)
        line = open(os.path.join(REPO, m.group(1))).read().split('\n')[int(m.group(2))].strip() if m else ''
        print('  %s   %s' % (u.replace('github.com/huderlem/poryscript/', ''), line[:110]))
finally:
    shutil.rmtree(tmp, ignore_errors=True)
