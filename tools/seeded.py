#!/usr/bin/env python3
"""Seeded changes (mutants written by independent agents): collect, confirm, and run the checks against them.

  tools/seeded.py collect                 copy /tmp/wt_Cxx/out/mN -> seeded/Cxx_mN
  tools/seeded.py verify [id ...]         confirm in a scratch worktree: builds, suite passes, demo fails with / passes without
  tools/seeded.py detect [id ...]         apply to /repo, run the property's quick check, undo; record what was reported
  tools/seeded.py table                   print the detection table (markdown)
"""
import sys, os, re, json, subprocess, shutil, glob, time

ROOT = os.path.dirname(os.path.dirname(os.path.abspath(__file__)))
SEEDED = os.path.join(ROOT, 'seeded')
REPO = '/repo'
ENV = dict(os.environ, GOFLAGS='-mod=mod', GOPROXY='off', GOSUMDB='off', GOTOOLCHAIN='local')
PKGS = ['./ast/', './emitter/', './lexer/', './parser/', './token/', '.']


def sh(cmd, cwd=None, timeout=900):
    r = subprocess.run(cmd, shell=True, cwd=cwd, stdout=subprocess.PIPE, stderr=subprocess.STDOUT, text=True, env=ENV, timeout=timeout)
    return r.returncode, r.stdout


def ids(args):
    if args:
        return args
    return sorted(os.path.basename(d) for d in glob.glob(os.path.join(SEEDED, 'C*_m*')))


def collect():
    os.makedirs(SEEDED, exist_ok=True)
    for d in sorted(glob.glob('/tmp/wt_C*/out/m*')):
        prop = re.search(r'wt_(C\d+)', d).group(1)
        sid = '%s_%s' % (prop, os.path.basename(d))
        dst = os.path.join(SEEDED, sid)
        if os.path.exists(dst):
            continue
        shutil.copytree(d, dst)
        print('collected', sid)
    # round 2: /tmp/w2_Cxx/out/m1,m2 -> Cxx_m4, Cxx_m5 ; round 3: /tmp/w3_Cxx/out/m1,m2 -> Cxx_m6, Cxx_m7 ; round 4: /tmp/w4_Cxx -> Cxx_m8, Cxx_m9 ; round 5: /tmp/w5_Cxx -> Cxx_m10, Cxx_m11 ; round 6: /tmp/w6_Cxx -> Cxx_m12, Cxx_m13 (only directories that hold meta.json, patch.diff and a demo are collected)
    for d in sorted(glob.glob('/tmp/w2_C*/out/m*')) + sorted(glob.glob('/tmp/w3_C*/out/m*')) + sorted(glob.glob('/tmp/w4_C*/out/m*')) + sorted(glob.glob('/tmp/w5_C*/out/m*')) + sorted(glob.glob('/tmp/w6_C*/out/m*')) + sorted(glob.glob('/tmp/w7_C*/out/m*')):
        rnd = int(re.search(r'/w(\d)_C', d).group(1))
        prop = re.search(r'w\d_(C\d+)', d).group(1)
        n = int(os.path.basename(d)[1:]) + {2: 3, 3: 5, 4: 7, 5: 9, 6: 11, 7: 11}[rnd]
        sid = '%s_m%d' % (prop, n)
        dst = os.path.join(SEEDED, sid)
        if os.path.exists(dst):
            continue
        if not (os.path.exists(os.path.join(d, 'meta.json')) and os.path.exists(os.path.join(d, 'patch.diff')) and (os.path.exists(os.path.join(d, 'demo_test.go')) or os.path.exists(os.path.join(d, 'demo', 'main.go')))):
            continue
        shutil.copytree(d, dst)
        print('collected', sid)


def demo_cmd(sid, wt):
    """returns (setup+run command, cleanup command) to run inside the worktree wt"""
    d = os.path.join(SEEDED, sid)
    if os.path.exists(os.path.join(d, 'demo', 'main.go')):
        return ('mkdir -p zz_demo && cp %s/demo/main.go zz_demo/main.go && go run ./zz_demo' % d, 'rm -rf zz_demo')
    meta = json.load(open(os.path.join(d, 'meta.json')))
    how = meta.get('demo_how_to_run', '')
    m = re.search(r'cp out/m\d+/demo_test\.go (\w+)/zz_demo_test\.go', how)
    pkg = m.group(1) if m else 'emitter'
    tg = re.search(r'-tags[ =](\w+)', how)
    tags = ('-tags %s ' % tg.group(1)) if tg else ''
    return ('cp %s/demo_test.go %s/zz_demo_test.go && go test %s-vet=off -count=1 -run TestDemo ./%s/' % (d, pkg, tags, pkg), 'rm -f %s/zz_demo_test.go' % pkg)


def verify(args):
    wt = '/tmp/seedwt'
    sh('git -C %s worktree remove --force %s' % (REPO, wt))
    rc, out = sh('git -C %s worktree add -q --detach %s HEAD' % (REPO, wt))
    if rc:
        print(out)
        return
    try:
        for sid in ids(args):
            d = os.path.join(SEEDED, sid)
            res = {}
            sh('git checkout -q -- . && git clean -fdq', cwd=wt)
            rc, out = sh('git apply %s/patch.diff' % d, cwd=wt)
            res['applies'] = rc == 0
            rc, out = sh('go build ./...', cwd=wt)
            res['builds'] = rc == 0
            rc, out = sh('go test -vet=off -count=1 %s' % ' '.join(PKGS), cwd=wt)
            res['suite_passes_with_change'] = rc == 0 and 'FAIL' not in out
            run, clean = demo_cmd(sid, wt)
            rc, out = sh(run, cwd=wt, timeout=300)
            res['demo_fails_with_change'] = rc != 0
            res['demo_output_with_change'] = out[-1500:]
            sh(clean, cwd=wt)
            sh('git checkout -q -- .', cwd=wt)
            rc, out = sh(run, cwd=wt, timeout=300)
            res['demo_passes_without_change'] = rc == 0
            sh(clean, cwd=wt)
            res['confirmed'] = all(res[k] for k in ('applies', 'builds', 'suite_passes_with_change', 'demo_fails_with_change', 'demo_passes_without_change'))
            res['confirmed_at_repo_commit'] = sh('git -C %s rev-parse --short HEAD' % REPO)[1].strip()
            res['commands'] = ['git apply patch.diff', 'go build ./...', 'go test -vet=off -count=1 ' + ' '.join(PKGS), run]
            json.dump(res, open(os.path.join(d, 'confirm.json'), 'w'), indent=1)
            print(sid, 'CONFIRMED' if res['confirmed'] else 'NOT-CONFIRMED %s' % {k: v for k, v in res.items() if isinstance(v, bool)})
    finally:
        sh('git -C %s worktree remove --force %s' % (REPO, wt))


def detect(args, tier='quick', props=None):
    rc, out = sh('git -C %s status --porcelain' % REPO)
    if out.strip():
        print('/repo is not clean; refusing', out)
        return
    for sid in ids(args):
        d = os.path.join(SEEDED, sid)
        prop = sid.split('_')[0]
        targets = props or [prop]
        rec = {}
        try:
            rc, out = sh('git -C %s apply %s/patch.diff' % (REPO, d))
            if rc:
                print(sid, 'patch does not apply', out)
                continue
            for p in targets:
                t0 = time.time()
                rc, out = sh('%s/tools/check.py %s %s' % (ROOT, tier, p), cwd=ROOT, timeout=3000)
                vl = [l for l in out.split('\n') if l.startswith('VIOLATION')]
                rep = None
                if vl:
                    m = re.search(r'replay=(\S+)', vl[0])
                    if m and os.path.exists(m.group(1)):
                        rj = json.load(open(m.group(1)))
                        rep = {'oracle': rj.get('oracle'), 'what_fails': (rj.get('what_fails') or rj.get('broken') or '')[:600], 'input': rj.get('input')}
                rec[p] = {'exit': rc, 'violation_line': vl[0] if vl else None, 'concrete_input': bool(vl) and 'no-failing-input-found' not in vl[0], 'replay': rep, 'wall_s': round(time.time() - t0, 1)}
        finally:
            sh('git -C %s checkout -q -- .' % REPO)
        json.dump(rec, open(os.path.join(d, 'detect_%s.json' % tier), 'w'), indent=1, ensure_ascii=False)
        for p in targets:
            r = rec.get(p, {})
            print(sid, p, 'DETECTED' if r.get('exit') == 1 else 'MISSED', '(concrete input)' if r.get('concrete_input') else ('(no-failing-input-found)' if r.get('exit') == 1 else ''), r.get('wall_s'), 's')
        sys.stdout.flush()
    # leave the build in the state of the clean tree
    sh('%s/tools/build.sh harness' % ROOT)


def table():
    print('| change | property | what it does | needs | confirmed | quick check |')
    print('|---|---|---|---|---|---|')
    for sid in ids([]):
        d = os.path.join(SEEDED, sid)
        meta = json.load(open(os.path.join(d, 'meta.json')))
        conf = json.load(open(os.path.join(d, 'confirm.json'))) if os.path.exists(os.path.join(d, 'confirm.json')) else {}
        det = json.load(open(os.path.join(d, 'detect_quick.json'))) if os.path.exists(os.path.join(d, 'detect_quick.json')) else {}
        prop = sid.split('_')[0]
        r = det.get(prop, {})
        verdict = '-' if not r else ('caught, concrete input (%s)' % (r.get('replay') or {}).get('oracle') if r.get('concrete_input') else ('caught, no-failing-input-found' if r.get('exit') == 1 else 'MISSED'))
        print('| %s | %s | %s | %s | %s | %s |' % (sid, prop, meta.get('summary', '')[:140].replace('|', '/'), meta.get('needs', '')[:120].replace('|', '/'), 'yes' if conf.get('confirmed') else 'NO', verdict))


if __name__ == '__main__':
    cmd = sys.argv[1] if len(sys.argv) > 1 else ''
    if cmd == 'collect':
        collect()
    elif cmd == 'verify':
        verify(sys.argv[2:])
    elif cmd == 'detect':
        detect(sys.argv[2:])
    elif cmd == 'table':
        table()
    else:
        print(__doc__)
