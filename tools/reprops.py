#!/usr/bin/env python3
"""reprops.py Cxx name1 name2 ... : re-derive, in place, the statement of the restated theorems `Theorem name : <stmt>. Proof. exact
Module.name. Qed.` of coq/Properties_Cxx.v from the lemma they point to (after the lemma's statement changed). The statement is
printed by coqtop (`Check Module.name`) under the imports that precede the theorem in the file. With no names: every theorem of
the file whose proof is `exact Module.name` and that no longer type-checks is NOT detected automatically - give the names."""
import sys, re, subprocess, os
ROOT = os.path.dirname(os.path.dirname(os.path.abspath(__file__)))
prop, names = sys.argv[1], sys.argv[2:]
path = os.path.join(ROOT, 'coq', 'Properties_%s.v' % prop)
src = open(path).read()


def strip_comments(s):
    out, depth, i = [], 0, 0
    while i < len(s):
        if s.startswith('(*', i):
            depth += 1; i += 2; continue
        if s.startswith('*)', i) and depth:
            depth -= 1; i += 2; continue
        if not depth:
            out.append(s[i])
        elif s[i] == '\n':
            out.append('\n')
        i += 1
    return ''.join(out)


for n in names:
    m = re.search(r'^Theorem %s :\n(.*?)\nProof\. exact ([A-Za-z0-9_]+)\.([A-Za-z0-9_\']+)\. Qed\.' % re.escape(n), src, re.S | re.M)
    if not m:
        print('not found:', n); continue
    mod, lem = m.group(2), m.group(3)
    pre = strip_comments(src[:m.start()])
    imports = '\n'.join(l for l in pre.split('\n') if re.match(r'\s*(From|Require|Import|Open Scope|Local Open Scope|Close Scope)', l))
    q = imports + '\nSet Printing Width 150.\nSet Printing Depth 10000.\nCheck %s.%s.\n' % (mod, lem)
    r = subprocess.run(['coqtop', '-Q', os.path.join(ROOT, 'coq'), 'Pory'], input=q, capture_output=True, text=True, timeout=900)
    lines = r.stdout.split('\n')
    body = None
    for i, l in enumerate(lines):
        if l.strip() == '%s.%s' % (mod, lem) or l.strip() == lem:
            if i + 1 < len(lines) and lines[i + 1].lstrip().startswith(': '):
                body = [lines[i + 1].lstrip()[2:]]
                j = i + 2
                while j < len(lines) and lines[j].startswith(' ') and lines[j].strip():
                    body.append(lines[j][7:] if lines[j].startswith('       ') else lines[j].lstrip())
                    j += 1
                break
    if body is None:
        print('no statement for', n, r.stdout[-1500:], r.stderr[-500:]); continue
    new = 'Theorem %s :\n  %s.\nProof. exact %s.%s. Qed.' % (n, '\n  '.join(body), mod, lem)
    src = src[:m.start()] + new + src[m.end():]
    print('restated', n)
open(path, 'w').write(src)
