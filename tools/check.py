#!/usr/bin/env python3
"""Entry point of every check registered in MANIFEST.json.

  tools/check.py <quick|thorough> <Cxx>      decide property Cxx on /repo's current working tree
  tools/check.py --replay <replay.json>      re-run the input of a replay file against /repo

Exit 0: the property held on everything explored (KNOWN-FINDING lines may be printed).
Exit 1: a line `VIOLATION property=<id> replay=<path>` was printed.
See DESIGN.md section 6.
"""
import sys, os, re, json, time, subprocess, hashlib, fcntl, binascii, glob

ROOT = os.path.dirname(os.path.dirname(os.path.abspath(__file__)))
BUILD = os.path.join(ROOT, 'build')
REPO = os.environ.get('PORY_REPO', '/repo')
ENV = dict(os.environ, GOFLAGS='-mod=mod', GOPROXY='off', GOSUMDB='off', GOTOOLCHAIN='local', PORY_REPO=REPO)

TRUSTED = [
    "Coq 8.16.1 kernel (coqc, full .vo build; coqchk in the thorough tier); no native_compute",
    "axioms: none (Print Assumptions under every property theorem must say 'Closed under the global context')",
    "extraction: ExtrOcamlBasic + ExtrOcamlString only (bool, option, unit, list, prod, sumbool -> OCaml; ascii -> char, string -> char list); N, Z, positive, nat stay inductive; OCaml 4.13.1",
    "OCaml driver (driver/driver.ml: case file reading, hex/UTF-8 coding, comparison, direct oracles); cross-checked on a sample of every run by evaluating the model inside Coq (tools/vmcheck.py, vm_compute, no extraction)",
    "Go harness (harness/: generators, execution of the real lexer/parser/emitter/FormatText with recover and watchdog)",
    "tools/gen_tables.py (regex scraping of Go literals into coq/Tables.v)",
    "hand-written Gallina model of lexer/parser/formattext/emitter, tied to /repo by exact differential execution on the generated cases of this run",
    "Go unicode tables, strconv.ParseInt, encoding/json: modelled (oracle tables / GoInt), not verified",
    "specification of the target instructions (goto_if_*, compare, switch/case, checktrainerflag) written from the decomp documentation",
]


def sh(cmd, timeout=3000, **kw):
    return subprocess.run(cmd, shell=isinstance(cmd, str), stdout=subprocess.PIPE, stderr=subprocess.STDOUT, text=True, timeout=timeout, env=ENV, **kw)


def unhex(s):
    try:
        return binascii.unhexlify(s).decode('utf8', 'replace')
    except Exception:
        return s


class Lock:
    def __enter__(self):
        os.makedirs(BUILD, exist_ok=True)
        self.f = open(os.path.join(BUILD, '.lock'), 'w')
        fcntl.flock(self.f, fcntl.LOCK_EX)
        return self

    def __exit__(self, *a):
        fcntl.flock(self.f, fcntl.LOCK_UN)
        self.f.close()


def theorems_of(prop):
    path = os.path.join(ROOT, 'coq', 'Properties_%s.v' % prop)
    if not os.path.exists(path):
        return []
    return re.findall(r'^\s*(?:Theorem|Corollary)\s+([A-Za-z0-9_\']+)', open(path).read(), re.M)


def assumptions(prop):
    """Print Assumptions of every theorem of Properties_<prop>.v -> {name: 'closed' | [axioms]}"""
    thms = theorems_of(prop)
    if not thms:
        return {}
    d = os.path.join(BUILD, 'assum')
    os.makedirs(d, exist_ok=True)
    vo = os.path.join(ROOT, 'coq', 'Properties_%s.vo' % prop)
    cache = os.path.join(d, prop + '.json')
    if os.path.exists(cache) and os.path.exists(vo) and os.path.getmtime(cache) > os.path.getmtime(vo):
        try:
            c = json.load(open(cache))
            if sorted(c.keys()) == sorted(thms):
                return c
        except Exception:
            pass
    # first one Print Assumptions over a term that mentions every theorem of the file (the dependency cone is traversed once);
    # only if that is not closed, one per theorem to name the culprit
    src = os.path.join(d, 'AssumAll_%s.v' % prop)
    with open(src, 'w') as f:
        f.write('From Pory Require Properties_%s.\n' % prop)
        f.write('Definition all_theorems : True :=\n' + ''.join('  let _ := @Properties_%s.%s in\n' % (prop, t) for t in thms) + '  I.\nPrint Assumptions all_theorems.\n')
    r = sh(['coqc', '-Q', os.path.join(ROOT, 'coq'), 'Pory', src], timeout=1800, cwd=d)
    if r.returncode == 0 and 'Closed under the global context' in r.stdout and 'Axioms:' not in r.stdout:
        res = {t: 'closed' for t in thms}
        json.dump(res, open(cache, 'w'))
        return res
    src = os.path.join(d, 'Assum_%s.v' % prop)
    with open(src, 'w') as f:
        f.write('From Pory Require Import Properties_%s.\n' % prop)
        for t in thms:
            f.write('Print Assumptions %s.\n' % t)
    r = sh(['coqc', '-Q', os.path.join(ROOT, 'coq'), 'Pory', src], timeout=3000, cwd=d)
    out = r.stdout
    res = {}
    # the output is a sequence of blocks, one per Print Assumptions, in order
    blocks = re.split(r'(?=Closed under the global context|Axioms:)', out)
    blocks = [b for b in blocks if b.startswith('Closed') or b.startswith('Axioms:')]
    for t, b in zip(thms, blocks):
        if b.startswith('Closed'):
            res[t] = 'closed'
        else:
            res[t] = [l.split(':')[0].strip() for l in b.split('\n')[1:] if l and not l.startswith(' ') and ':' in l]
    for t in thms:
        res.setdefault(t, ['<no output: %s>' % out[-300:].replace('\n', ' ')])
    json.dump(res, open(cache, 'w'))
    return res


FORBIDDEN = r'\bAdmitted\b|\badmit\b|^\s*(Axiom|Axioms|Parameter|Parameters|Conjecture|Hypothesis|Hypotheses|Variable|Variables)\b|Unset\s+Guard|Guard\s+Checking|bypass_check|type-in-type|impredicative-set|Admit\s+Obligations|Unset\s+Positivity|Unset\s+Universe'


def audit():
    """forbidden constructs; Variable/Hypothesis are allowed inside sections only"""
    bad = []
    for path in sorted(glob.glob(os.path.join(ROOT, 'coq', '*.v'))):
        depth = 0
        text = open(path).read()
        text = re.sub(r'\(\*.*?\*\)', lambda m: re.sub(r'[^\n]', ' ', m.group(0)), text, flags=re.S)
        for n, line in enumerate(text.split('\n'), 1):
            if re.match(r'\s*(Section|Module)\s', line):
                depth += 1
            if re.match(r'\s*End\s', line):
                depth -= 1
            m = re.search(FORBIDDEN, line)
            if m:
                w = m.group(0).strip()
                if w.split()[0] in ('Variable', 'Variables', 'Hypothesis', 'Hypotheses') and depth > 0:
                    continue
                bad.append('%s:%d: %s' % (os.path.basename(path), n, line.strip()))
    return bad


def known_findings():
    path = os.path.join(ROOT, 'known_findings.txt')
    opens = {}
    if os.path.exists(path):
        for line in open(path):
            m = re.match(r'open:\s+property=(\S+)\s+key=(\S+)\s+(.*)', line)
            if m:
                opens[(m.group(1), m.group(2))] = m.group(3).strip()
    return opens


def finding_key(oracle, case_line):
    """identifies a finding by the oracle and the exact input (input fields of the case line)"""
    f = case_line.split('\t')
    nin = {'CASE': 10, 'LEX': 1, 'LEXPAIR': 2, 'FMT': 6, 'META': 3}.get(f[0], len(f) - 1)
    return hashlib.sha256((oracle + '\t' + '\t'.join(f[:1 + nin])).encode()).hexdigest()[:16]


def describe_case(line):
    f = line.split('\t')
    if f[0] == 'CASE' and len(f) >= 11:
        return {'kind': 'CASE', 'optimize': f[1], 'lint': f[2], 'switches': f[3], 'line_markers': f[4][:1], 'lm_path': unhex(f[4][2:]), 'autovar_config': f[5], 'font_spec': f[6][:200], 'cli_font': f[7], 'cli_maxlen': f[8],
                'expect': f[9], 'source': unhex(f[10]), 'implementation_result': (f[11] + ' ' + (unhex(f[12]) if f[11] == 'OK' else f[12])) if len(f) > 12 else None}
    if f[0] == 'LEX':
        return {'kind': 'LEX', 'source': unhex(f[1]), 'implementation_tokens': f[2] if len(f) > 2 else None}
    if f[0] == 'LEXPAIR':
        return {'kind': 'LEXPAIR', 'source_a': unhex(f[1]), 'source_b': unhex(f[2])}
    if f[0] == 'FMT':
        return {'kind': 'FMT', 'font_widths': ';'.join('%s=%s' % (unhex(kv.split('=')[0]), kv.split('=')[1]) for kv in f[1].split(';') if '=' in kv), 'maxWidth': f[2], 'cursorOverlapWidth': f[3], 'fontID': f[4],
                'numLines': f[5], 'text': unhex(f[6]), 'implementation_result': (unhex(f[7][3:]) if f[7].startswith('OK:') else f[7]) if len(f) > 7 else None}
    if f[0] == 'META':
        return {'kind': 'META', 'switches': f[1], 'program': unhex(f[2]), 'expanded_twin': unhex(f[3]), 'results': [x[:60] for x in f[4:6]]}
    return {'kind': f[0], 'fields': f[1:]}


def run_driver(cases_path, sem):
    r = sh([os.path.join(BUILD, 'driver'), cases_path, sem], timeout=7000)
    mism, fails, summary = [], [], None
    rejects = []
    for line in r.stdout.split('\n'):
        f = line.split('\t')
        if f[0] == 'VALIDATOR-REJECT' and len(f) >= 4:
            rejects.append((int(f[1]), f[2], f[3]))
        if f[0] == 'MISMATCH' and len(f) >= 4:
            mism.append((int(f[1]), f[2], '\t'.join(f[3:])))
        elif f[0] == 'FAIL' and len(f) >= 4:
            fails.append((f[1], int(f[2]), '\t'.join(f[3:])))
        elif f[0] == 'SUMMARY':
            try:
                summary = json.loads(f[1])
            except Exception:
                pass
    if summary is not None:
        summary['validator_rejects'] = rejects[:5]
    return mism, fails, summary, r


def write_evidence(prop, tier, seed, level, coverage, wall, violations, assumptions_list):
    os.makedirs(os.path.join(ROOT, 'evidence'), exist_ok=True)
    ev = {'property_id': prop, 'tier': tier, 'seed': seed, 'level': level, 'coverage': coverage,
          'assumptions': assumptions_list, 'wall_s': round(wall, 2), 'violations': violations}
    tmp = os.path.join(ROOT, 'evidence', prop + '.json.tmp')
    json.dump(ev, open(tmp, 'w'), indent=1, ensure_ascii=False)
    os.replace(tmp, os.path.join(ROOT, 'evidence', prop + '.json'))


def violation(prop, replay_obj, name, nofail=False):
    d = os.path.join(BUILD, 'replay')
    os.makedirs(d, exist_ok=True)
    path = os.path.join(d, '%s.%s.json' % (prop, name))
    replay_obj['rerun'] = 'tools/check.py --replay %s' % path
    json.dump(replay_obj, open(path, 'w'), indent=1, ensure_ascii=False)
    print('VIOLATION property=%s replay=%s%s' % (prop, path, ' no-failing-input-found' if nofail else ''))
    sys.stdout.flush()


def property_meta(prop):
    for line in open(os.path.join(ROOT, 'properties.jsonl')):
        p = json.loads(line)
        if p['id'] == prop:
            return p
    return None


def main_check(tier, prop):
    t0 = time.time()
    seed = int(os.environ.get('VERIF_SEED', '1'))
    os.makedirs(BUILD, exist_ok=True)
    viol = 0
    # ---- 1. build: tables from /repo, proofs, extraction, driver, harness against the working tree ----
    with Lock():
        gt = os.path.join(ROOT, 'tools', 'gen_tables.py')
        if os.path.exists(gt):
            r = sh([sys.executable, gt], timeout=120)
            if r.returncode != 0:
                violation(prop, {'property': prop, 'broken': 'tools/gen_tables.py could not read the tables of the Go sources', 'detail': r.stdout[-2000:]}, 'tables', nofail=True)
                write_evidence(prop, tier, seed, 'proof', {'obligations': 1, 'discharged': 0, 'checker_cmd': 'tools/gen_tables.py', 'trusted_base': TRUSTED, 'explanation': 'table extraction failed'}, time.time() - t0, 1, [])
                return 1
        r = sh([os.path.join(ROOT, 'tools', 'build.sh')], timeout=7000)
        build_msg = r.stdout
        build_ok = r.returncode == 0
        assum = assumptions(prop) if build_ok or 'BUILD-FAIL coq' not in build_msg else {}
    coq_broken = 'BUILD-FAIL coq' in build_msg
    broken_obligation = None
    if coq_broken:
        log = open(os.path.join(BUILD, 'coq.log')).read()
        m = re.search(r'File "\./([A-Za-z0-9_]+\.v)", line (\d+).*?\n(Error:.*?)(?:\n\n|\Z)', log, re.S)
        broken_obligation = {'file': m.group(1), 'line': int(m.group(2)), 'error': m.group(3)[:1500]} if m else {'error': log[-1500:]}
    if not build_ok and not coq_broken:
        # the harness does not compile against the working tree, or the driver is broken: nothing can be decided
        violation(prop, {'property': prop, 'broken': 'build', 'detail': build_msg[-3000:] + open(os.path.join(BUILD, 'go.log')).read()[-3000:] if os.path.exists(os.path.join(BUILD, 'go.log')) else build_msg}, 'build', nofail=True)
        write_evidence(prop, tier, seed, 'proof', {'obligations': 1, 'discharged': 0, 'checker_cmd': 'tools/build.sh', 'trusted_base': TRUSTED, 'explanation': 'build failed'}, time.time() - t0, 1, [])
        return 1
    bad_audit = audit()
    thms = theorems_of(prop)
    discharged = [t for t in thms if assum.get(t) == 'closed']
    axioms = {t: a for t, a in assum.items() if a != 'closed'}

    # ---- 2. cases: corpus first, then this run's generated cases ----
    cases_path = os.path.join(BUILD, 'cases', '%s.%s.cases' % (prop, tier))
    os.makedirs(os.path.dirname(cases_path), exist_ok=True)
    gen = os.path.join(BUILD, 'bin', 'gencases')
    with open(cases_path, 'w') as out:
        for c in sorted(glob.glob(os.path.join(ROOT, 'corpus', prop, '*.cases'))):
            r = subprocess.run([gen, '-rerun', c], stdout=out, stderr=subprocess.DEVNULL, env=ENV, timeout=3000)
        r = subprocess.run([gen, '-prop', prop, '-tier', tier, '-seed', str(seed)], stdout=out, stderr=subprocess.DEVNULL, env=ENV, timeout=7000)
    lines = open(cases_path).read().split('\n')

    # ---- 3. correspondence + oracles ----
    have_driver = os.path.exists(os.path.join(BUILD, 'driver'))
    mism, fails, summary, dr = ([], [], None, None)
    if have_driver:
        sem = 'semall' if (tier == 'thorough' or prop in SEM_ALWAYS) else 'semmis'
        env_budget = {'quick': '400', 'thorough': '100000'}[tier]
        ENV['ORACLE_SEM_BUDGET'] = os.environ.get('ORACLE_SEM_BUDGET', env_budget)
        mism, fails, summary, dr = run_driver(cases_path, sem)
    if summary is None:
        violation(prop, {'property': prop, 'broken': 'driver produced no summary', 'detail': (dr.stdout[-2000:] if dr else 'no driver binary')}, 'driver', nofail=True)
        write_evidence(prop, tier, seed, 'proof', {'obligations': max(1, len(thms)), 'discharged': 0, 'checker_cmd': 'build/driver', 'trusted_base': TRUSTED, 'explanation': 'driver failed'}, time.time() - t0, 1, [])
        return 1

    # ---- 3b. the same comparison INSIDE Coq on a sample (vm_compute over coq/Compile.v: no extraction, no OCaml driver) ----
    vm = None
    if not coq_broken and os.path.exists(os.path.join(ROOT, 'tools', 'vmcheck.py')):
        try:
            r = sh([sys.executable, os.path.join(ROOT, 'tools', 'vmcheck.py'), prop, tier, {'quick': '25', 'thorough': '300'}[tier]], timeout=3000)
            m = re.search(r'VMCHECK cases=(\d+) agree=(\d+)', r.stdout)
            vm = {'cases': int(m.group(1)), 'agree': int(m.group(2)), 'detail': r.stdout[-1500:] if m.group(1) != m.group(2) else ''} if m else {'cases': 0, 'agree': 0, 'detail': r.stdout[-800:]}
        except Exception as e:
            vm = {'cases': 0, 'agree': 0, 'detail': 'vmcheck did not run: %s' % e}

    # ---- 4. verdict ----
    opens = known_findings()
    reported = 0
    known_printed = set()
    new_fails = []
    for oracle, idx, msg in fails:
        key = finding_key(oracle, lines[idx - 1]) if 0 < idx <= len(lines) else 'nokey'
        if (prop, key) in opens:
            if key not in known_printed:
                print('KNOWN-FINDING: property=%s %s' % (prop, opens[(prop, key)]))
                known_printed.add(key)
            continue
        new_fails.append((oracle, idx, msg, key))
    if new_fails:
        oracle, idx, msg, key = new_fails[0]
        viol = 1
        violation(prop, {'property': prop, 'title': property_meta(prop)['title'], 'oracle': oracle, 'what_fails': msg[:4000], 'finding_key': key,
                         'input': describe_case(lines[idx - 1]), 'case_line': lines[idx - 1], 'directives': directives_before(lines, idx),
                         'other_failing_inputs': len(new_fails) - 1, 'tier': tier, 'seed': seed}, 'fail')
    elif mism:
        idx, layer, detail = mism[0]
        viol = 1
        violation(prop, {'property': prop, 'title': property_meta(prop)['title'], 'broken': 'correspondence layer %s: the model and the implementation disagree' % layer,
                         'detail': detail[:4000], 'input': describe_case(lines[idx - 1]), 'case_line': lines[idx - 1], 'directives': directives_before(lines, idx),
                         'mismatching_cases': len(mism), 'note': 'the oracles of this property found no input on which the property itself fails', 'tier': tier, 'seed': seed}, 'mismatch', nofail=True)
    if coq_broken and not viol:
        viol = 1
        violation(prop, {'property': prop, 'broken': 'proof obligation no longer checks (coq build failed)', 'obligation': broken_obligation,
                         'note': 'the correspondence and the oracles found no failing input on this run'}, 'obligation', nofail=True)
    if vm and vm['cases'] != vm['agree'] and not viol:
        # the extracted model agreed with the implementation on every case, the model evaluated inside Coq does not: extraction / driver glue
        viol = 1
        violation(prop, {'property': prop, 'broken': 'the model evaluated inside Coq (vm_compute) disagrees with the implementation although the extracted model agrees: extraction or driver glue',
                         'detail': vm['detail']}, 'vmcheck', nofail=True)
    if summary.get('validator_rejects') and not viol:
        viol = 1
        idx, nm, detail = summary['validator_rejects'][0]
        violation(prop, {'property': prop, 'broken': 'precondition of theorem emit_script_correct_checked: a validator (chk_block / wf_render) rejects the model\'s own chunk graph or code of script %s' % nm,
                         'detail': detail[:3000], 'note': 'the theorem does not cover this script; the correspondence and the oracles found no failing input'}, 'validator', nofail=True)
    if bad_audit and not viol:
        viol = 1
        violation(prop, {'property': prop, 'broken': 'audit: forbidden construct in the Coq development', 'lines': bad_audit[:20]}, 'audit', nofail=True)
    if axioms and not viol:
        viol = 1
        violation(prop, {'property': prop, 'broken': 'a property theorem depends on axioms', 'axioms': axioms}, 'axioms', nofail=True)
    if not thms and not viol and not os.environ.get('VERIF_DEV_NO_THEOREMS'):
        viol = 1
        violation(prop, {'property': prop, 'broken': 'no theorem file coq/Properties_%s.v' % prop}, 'notheorem', nofail=True)

    # ---- 4b. thorough tier: independent re-check of the compiled proofs with coqchk ----
    coqchk = None
    if tier == 'thorough' and thms and not coq_broken:
        r = sh(['coqchk', '-silent', '-o', '-Q', os.path.join(ROOT, 'coq'), 'Pory', 'Pory.Properties_%s' % prop], timeout=6000)
        m = re.search(r'\* Axioms:(.*?)\n\s*\n\* Constants', r.stdout, re.S)
        ax = m.group(1).strip() if m else '?'
        coqchk = {'exit': r.returncode, 'axioms': ax, 'summary': r.stdout[-700:]}
        if (r.returncode != 0 or ax != '<none>') and not viol:
            viol = 1
            violation(prop, {'property': prop, 'broken': 'coqchk does not accept the compiled proofs of Properties_%s or reports axioms' % prop, 'coqchk': coqchk}, 'coqchk', nofail=True)

    # ---- 5. evidence ----
    samples = []
    for l in lines:
        f = l.split('\t')
        if f[0] in ('CASE', 'LEX', 'LEXPAIR', 'FMT', 'META'):
            d = describe_case(l)
            for k in list(d.keys()):
                if isinstance(d[k], str) and len(d[k]) > 500:
                    d[k] = d[k][:500] + '...'
            samples.append(d)
            if len(samples) >= 3:
                break
    dist = distribution(lines)
    coverage = {
        'obligations': max(1, len(thms)), 'discharged': len(discharged) if not coq_broken else 0,
        'theorems': thms, 'print_assumptions': assum,
        'checker_cmd': 'tools/build.sh coq  (coq_makefile + make: coqc 8.16.1 full .vo build of coq/*.v) ; coqc build/assum/Assum_%s.v (Print Assumptions)' % prop,
        'trusted_base': TRUSTED,
        'evaluations': summary['cases'], 'distinct_nontrivial': summary['distinct'],
        'rule': 'cases of harness/cmd/gencases -prop %s -tier %s -seed %d (DESIGN.md section 7) preceded by corpus/%s; distinct = distinct input tuples (options + source); every case is executed on the implementation and on the extracted model and compared under the projection of the property' % (prop, tier, seed, prop),
        'samples': samples, 'correspondence': summary, 'input_distribution': dist,
        'mismatches': len(mism), 'oracle_failures': len(fails), 'known_findings_matched': len(known_printed),
        'exhaustive': False,
    }
    if vm is not None:
        coverage['in_coq_correspondence'] = {'cases': vm['cases'], 'agree': vm['agree'], 'how': 'tools/vmcheck.py: Compile.compile (CASE lines: ASCII sources without format()), Format.format_text (FMT lines) and Lexer.lex (LEX lines: ASCII sources, all eight token fields) evaluated by vm_compute inside Coq on a sample of this run\'s cases, compared with the implementation\'s recorded result; no extraction, no OCaml driver'}
    if coqchk is not None:
        coverage['coqchk'] = coqchk
    write_evidence(prop, tier, seed, 'proof', coverage, time.time() - t0, viol,
                   ['the model is tied to the implementation by exact agreement on the generated cases of this run only',
                    'theorems are about the Gallina model; see DESIGN.md section 8 for the trusted base'])
    return viol


SEM_ALWAYS = {'C01', 'C02', 'C03', 'C05', 'C11'}


def directives_before(lines, idx):
    """the PROJ / ORACLE / CLASS / FONTCFG / EMBED lines in force at line idx (needed to replay it)"""
    cur = {}
    for l in lines[:idx - 1]:
        k = l.split('\t', 1)[0]
        if k in ('PROJ', 'ORACLE', 'CLASS', 'FONTCFG'):
            cur[k] = l
    return [cur[k] for k in ('PROJ', 'ORACLE') if k in cur]


def distribution(lines):
    kinds, results, sizes = {}, {}, []
    for l in lines:
        f = l.split('\t')
        if f[0] in ('CASE', 'LEX', 'LEXPAIR', 'FMT', 'META'):
            kinds[f[0]] = kinds.get(f[0], 0) + 1
            if f[0] == 'CASE' and len(f) > 11:
                results[f[11]] = results.get(f[11], 0) + 1
                sizes.append(len(f[10]) // 2)
    sizes.sort()
    d = {'case_kinds': kinds, 'implementation_results': results}
    if sizes:
        d['source_bytes'] = {'min': sizes[0], 'median': sizes[len(sizes) // 2], 'max': sizes[-1]}
    return d


def main_replay(path):
    rp = json.load(open(path))
    prop = rp.get('property', 'C00')
    if 'case_line' not in rp:
        print('replay file holds no input (it names a broken obligation): re-run the check itself')
        print(json.dumps(rp, indent=1)[:3000])
        return 0
    with Lock():
        r = sh([os.path.join(ROOT, 'tools', 'build.sh')], timeout=7000)
    d = os.path.join(BUILD, 'replay')
    tmp = os.path.join(d, 'replay_input.cases')
    with open(tmp, 'w') as f:
        for l in rp.get('directives', []):
            f.write(l + '\n')
        f.write(rp['case_line'] + '\n')
    out = os.path.join(d, 'replay_run.cases')
    with open(out, 'w') as o:
        subprocess.run([os.path.join(BUILD, 'bin', 'gencases'), '-rerun', tmp], stdout=o, env=ENV, timeout=600)
    mism, fails, summary, dr = run_driver(out, 'semall')
    print(dr.stdout[-6000:])
    if fails or mism:
        print('VIOLATION property=%s replay=%s' % (prop, path))
        return 1
    print('replay: the recorded input no longer fails')
    return 0


def main_assum(props):
    """fill the Print Assumptions caches (build/assum/<prop>.json); called by tools/build.sh after the Coq build, in parallel"""
    import concurrent.futures
    with concurrent.futures.ThreadPoolExecutor(max_workers=10) as ex:
        res = list(ex.map(lambda p: (p, assumptions(p)), props))
    bad = [(p, t) for p, a in res for t, v in a.items() if v != 'closed']
    for p, t in bad[:10]:
        print('ASSUMPTIONS %s %s is not closed under the global context' % (p, t))
    return 0


if __name__ == '__main__':
    if len(sys.argv) >= 2 and sys.argv[1] == '--assum-all':
        sys.exit(main_assum(['C%02d' % i for i in range(1, 21)]))
    if len(sys.argv) >= 3 and sys.argv[1] == '--replay':
        sys.exit(main_replay(sys.argv[2]))
    if len(sys.argv) < 3 or sys.argv[1] not in ('quick', 'thorough'):
        print(__doc__)
        sys.exit(2)
    sys.exit(main_check(sys.argv[1], sys.argv[2]))
