#!/bin/bash
# Builds everything the checks need from files on disk: Coq development (full .vo build), extracted
# model + OCaml driver, Go harness against the repository's current working tree.
# usage: tools/build.sh [coq|driver|harness|all]   (default all)
set -u
root=$(cd "$(dirname "$0")/.." && pwd)
repo=${PORY_REPO:-/repo}
what=${1:-all}
build=$root/build
mkdir -p "$build/bin" "$build/extract"
export GOFLAGS=-mod=mod GOPROXY=off GOSUMDB=off GOTOOLCHAIN=local CARGO_NET_OFFLINE=true
rc=0
if [ "$what" = all ] || [ "$what" = coq ]; then
  python3 "$root/tools/gen_tables.py" > "$build/tables.log" 2>&1 || { echo "BUILD-FAIL tables (see $build/tables.log)"; rc=1; }
  ( cd "$root/coq" && { [ -f Makefile ] && [ Makefile -nt _CoqProject ] || coq_makefile -f _CoqProject -o Makefile >/dev/null 2>&1; }
    timeout 3000 make -j16 > "$build/coq.log" 2>&1 ) || { echo "BUILD-FAIL coq (see $build/coq.log)"; rc=1; }
  # Print Assumptions of every restated theorem, once per build and in parallel (cached in build/assum; tools/check.py reads the cache)
  [ $rc = 0 ] && [ "$what" = all ] && timeout 3000 python3 "$root/tools/check.py" --assum-all > "$build/assum.log" 2>&1
fi
if [ $rc = 0 ] && { [ "$what" = all ] || [ "$what" = driver ]; }; then
  if [ ! -x "$build/driver" ] || [ "$root/coq/Extract.vo" -nt "$build/driver" ] || [ "$root/driver/driver.ml" -nt "$build/driver" ] || [ "$root/driver/oracles.ml" -nt "$build/driver" ] \
     || [ -n "$(find "$root/coq" -name '*.vo' -newer "$build/driver" 2>/dev/null | head -1)" ]; then
    ( cd "$build/extract" && timeout 600 coqc -Q "$root/coq" Pory "$root/coq/Extract.v" > extract.log 2>&1 &&
      cp "$root/driver/driver.ml" "$root/driver/oracles.ml" . &&
      timeout 600 ocamlfind ocamlopt -O3 -unboxed-types 2>/dev/null -package str model.mli model.ml oracles.ml driver.ml -o ../driver.new > ocaml.log 2>&1 ||
      timeout 600 ocamlfind ocamlopt -package str model.mli model.ml oracles.ml driver.ml -o ../driver.new > ocaml.log 2>&1 ) \
      && mv "$build/driver.new" "$build/driver" || { echo "BUILD-FAIL driver (see $build/extract/ocaml.log)"; rc=1; }
  fi
fi
if [ "$what" = all ] || [ "$what" = harness ]; then
  ( cd "$root/harness" && cp "$repo/go.sum" . 2>/dev/null
    sed "s#^replace .*#replace github.com/huderlem/poryscript => $repo#" go.mod > go.mod.tmp && { cmp -s go.mod.tmp go.mod && rm go.mod.tmp || mv go.mod.tmp go.mod; }
    timeout 600 go build -o "$build/bin/gencases" ./cmd/gencases ) > "$build/go.log" 2>&1 || { echo "BUILD-FAIL harness (see $build/go.log)"; rc=1; }
fi
exit $rc
