#!/usr/bin/env python3
"""In-Coq correspondence on a sample: the model is evaluated INSIDE Coq (vm_compute over coq/Compile.v, no extraction, no OCaml
driver) on cases of the property's case file and compared with the result the Go implementation recorded there.

  tools/vmcheck.py <Cxx> [tier] [n]      -> prints `VMCHECK cases=<k> agree=<k'>` and the disagreeing inputs; exit 1 on a disagreement

It removes the extraction and the driver from the trust path for that sample (DESIGN.md section 8): a disagreement here that the
extracted model does not show would be a defect of extraction / driver glue. Sample: CASE lines whose source is ASCII, has no
format() (the font configuration is not converted) and whose recorded result is OK or ERR; compared are the output text / the six
position fields of the error."""
import sys, os, re, subprocess, binascii
ROOT = os.path.dirname(os.path.dirname(os.path.abspath(__file__)))
prop = sys.argv[1]
tier = sys.argv[2] if len(sys.argv) > 2 else 'quick'
n = int(sys.argv[3]) if len(sys.argv) > 3 else 40
path = os.path.join(ROOT, 'build', 'cases', '%s.%s.cases' % (prop, tier))
if not os.path.exists(path):
    print('VMCHECK no case file', path)
    sys.exit(0)


def lit(b):
    return '[' + ';'.join(str(c) for c in b) + ']%N'


def txt(s):
    return lit(s.encode())


def cps(b):
    return '[' + ';'.join(str(ord(c)) for c in b.decode('utf8')) + ']%N'


fmt_sel = []
for line in open(path):
    f = line.rstrip('\n').split('\t')
    if f[0] == 'FMT' and len(f) >= 8 and (f[7] == 'ERR' or f[7].startswith('OK:')):
        try:
            binascii.unhexlify(f[6]).decode('utf8')
            fmt_sel.append(f)
        except Exception:
            pass
if len(fmt_sel) > n:
    step = len(fmt_sel) / float(n)
    fmt_sel = [fmt_sel[int(i * step)] for i in range(n)]
lex_sel = []
for line in open(path):
    f = line.rstrip('\n').split('\t')
    if f[0] == 'LEX' and len(f) == 3:
        src = binascii.unhexlify(f[1])
        if src and all(0 < c < 128 for c in src) and len(src) <= 400:
            lex_sel.append(f)
if len(lex_sel) > n:
    step = len(lex_sel) / float(n)
    lex_sel = [lex_sel[int(i * step)] for i in range(n)]
TYNAME = {'=': 'ASSIGN', '==': 'EQ', '!=': 'NEQ', '<': 'LT', '>': 'GT', '<=': 'LTE', '>=': 'GTE', '&&': 'AND', '||': 'OR', '!': 'NOT', '*': 'MUL', ',': 'COMMA',
          ':': 'COLON', '(': 'LPAREN', ')': 'RPAREN', '{': 'LBRACE', '}': 'RBRACE', '[': 'LBRACKET', ']': 'RBRACKET'}
sel, seen = [], set()
for line in open(path):
    f = line.rstrip('\n').split('\t')
    if f[0] != 'CASE' or len(f) < 13:
        continue
    src = binascii.unhexlify(f[10])
    if any(c >= 128 or c == 0 for c in src) or b'format' in src or len(src) > 700 or f[11] not in ('OK', 'ERR') or f[7] != '':
        continue
    key = '\t'.join(f[1:11])
    if key in seen:
        continue
    seen.add(key)
    sel.append(f)
# spread over the file
if len(sel) > n:
    step = len(sel) / float(n)
    sel = [sel[int(i * step)] for i in range(n)]
if not sel and not fmt_sel and not lex_sel:
    print('VMCHECK cases=0 agree=0 (no eligible case)')
    sys.exit(0)
d = os.path.join(ROOT, 'build', 'vmcheck')
os.makedirs(d, exist_ok=True)
vf = os.path.join(d, 'VM_%s.v' % prop)
with open(vf, 'w') as o:
    o.write('From Coq Require Import List ZArith NArith Bool.\nFrom Pory Require Import Lexer Ast Parser Format Emitter Compile.\nImport ListNotations.\n')
    o.write('Definition nf (_ : N) : bool := false.\nDefinition fc0 : fontcfg := {| fcDefault := []; fcFonts := [] |}.\n')
    o.write('Definition teq (a b : text) : bool := text_eqb a b.\n')
    o.write('Definition agree (o : outcome) (ok : bool) (out : text) (pos : list Z) : bool :=\n'
            '  match o with\n  | OutText x => ok && teq x out\n'
            '  | OutErr e => negb ok && (match pos with [a;b;c;d;e1;f] => Z.eqb (els e) a && Z.eqb (ele e) b && Z.eqb (ecs e) c && Z.eqb (eus e) d && Z.eqb (ece e) e1 && Z.eqb (eue e) f | _ => false end)\n'
            '  | _ => false end.\n')
    items = []
    for f in sel:
        opt, lint, sw, lm, cfg = f[1], f[2], f[3], f[4], f[5]
        lmpath = binascii.unhexlify(lm[2:]) if lm[:1] == '1' else b''
        av = []
        for kv in cfg.split(','):
            q = kv.split('=')
            if len(q) == 2:
                if q[1].startswith('#'):
                    av.append('(%s, {| avName := []; avPos := Some (%s)%%Z |})' % (txt(q[0]), q[1][1:]))
                else:
                    av.append('(%s, {| avName := %s; avPos := None |})' % (txt(q[0]), txt(q[1])))
        sws = []
        for kv in sw.split(','):
            q = kv.split('=')
            if len(q) == 2:
                sws.append('(%s, %s)' % (txt(q[0]), txt(q[1])))
        src = binascii.unhexlify(f[10])
        mp = 'None' if not lmpath else '(Some (%s))' % lit(lmpath)
        call = 'compile nf nf nf [%s] [%s] %s fc0 [] (%s)%%Z %s %s %s' % ('; '.join(av), '; '.join(sws), 'true' if lint == '0' else 'false', f[8], 'true' if opt == '1' else 'false', mp, lit(src))
        if f[11] == 'OK':
            items.append('agree (%s) true %s []' % (call, lit(binascii.unhexlify(f[12]))))
        else:
            pos = f[12].split('|')
            items.append('agree (%s) false [] [%s]%%Z' % (call, ';'.join('(%s)' % p for p in pos)))
    # FMT cases: FontConfig.FormatText against Format.format_text (texts and width keys as code points)
    for f in fmt_sel:
        ws = []
        for kv in f[1].split(';'):
            q = kv.split('=')
            if len(q) == 2:
                ws.append('(%s, (%s)%%Z)' % (cps(binascii.unhexlify(q[0])), q[1]))
        fc = '{| fcDefault := %s; fcFonts := [(%s, {| fWidths := [%s]; fCursor := 0%%Z; fMaxLen := 0%%Z; fNumLines := 0%%Z |})] |}' % (txt('f'), txt('f'), '; '.join(ws))
        call = 'format_text (%s) (%s) (%s)%%Z (%s)%%Z (%s) (%s)%%Z' % (fc, cps(binascii.unhexlify(f[6])), f[2], f[3], txt(f[4]), f[5])
        if f[7] == 'ERR':
            items.append('match %s with None => true | Some _ => false end' % call)
        else:
            items.append('match %s with Some x => teq x (%s) | None => false end' % (call, cps(binascii.unhexlify(f[7][3:]))))
        sel.append(['FMT', '', '', '', '', '', '', '', '', '', f[6], f[7][:2], f[7]])
    # LEX cases: lexer.New(src) token dump against Lexer.lex inside Coq (ASCII sources: the classification tables are not needed)
    if lex_sel:
        o.write('Definition tk_eqb (a b : token) : bool := tt_eqb (ttype a) (ttype b) && teq (tlit a) (tlit b) && Z.eqb (tline a) (tline b) && Z.eqb (tsb a) (tsb b) && Z.eqb (tsu a) (tsu b) && Z.eqb (teline a) (teline b) && Z.eqb (teb a) (teb b) && Z.eqb (teu a) (teu b).\n')
        o.write('Fixpoint collapse (l : list token) : list token := match l with a :: ((_ :: _) as r) => match collapse r with [b] => if tk_eqb a b then [a] else [a; b] | r1 => a :: r1 end | _ => l end.\n')
        o.write('Fixpoint tks_eqb (a b : list token) : bool := match a, b with [], [] => true | x :: a1, y :: b1 => tk_eqb x y && tks_eqb a1 b1 | _, _ => false end.\n')
        o.write('Definition mk (ty : toktype) (l : text) (a b c d e f : Z) : token := {| ttype := ty; tlit := l; tline := a; tsb := b; tsu := c; teline := d; teb := e; teu := f |}.\n')
    for f in lex_sel:
        exp = []
        for tk in f[2].split(';'):
            q = tk.split('|')
            # the separator | is also the literal of no token but the type name of OR is '||'
            if len(q) == 10 and q[0] == '' and q[1] == '' and q[2] == '':
                q = ['||'] + q[3:]
            exp.append('mk %s %s %s' % (TYNAME.get(q[0], q[0]), lit(binascii.unhexlify(q[1])), ' '.join('(%s)%%Z' % x for x in q[2:8])))
        items.append('tks_eqb (collapse (lex nf nf nf %s)) [%s]' % (lit(binascii.unhexlify(f[1])), '; '.join(exp)))
        sel.append(['LEX', '', '', '', '', '', '', '', '', '', f[1], 'LEX', f[2]])
    o.write('Definition results : list bool := Eval vm_compute in [\n  ' + ';\n  '.join(items) + '].\nPrint results.\n')
r = subprocess.run(['coqc', '-Q', os.path.join(ROOT, 'coq'), 'Pory', vf], cwd=d, capture_output=True, text=True, timeout=3000)
m = re.search(r'results\s*=\s*\[(.*?)\]', r.stdout, re.S)
if r.returncode != 0 or not m:
    print('VMCHECK coqc failed:', (r.stdout + r.stderr)[-800:])
    sys.exit(1)
vals = [v.strip() for v in m.group(1).split(';')]
bad = [i for i, v in enumerate(vals) if v != 'true']
print('VMCHECK cases=%d agree=%d' % (len(vals), len(vals) - len(bad)))
for i in bad[:5]:
    print('  disagreement on', binascii.unhexlify(sel[i][10])[:300], 'options', sel[i][1:10], 'implementation', sel[i][11], sel[i][12][:200])
sys.exit(1 if bad else 0)
