#!/bin/bash
# add.sh Cxx "<extra import line>" Module name...   : appends closed statements to Properties_Cxx.v
p=$1; imp=$2; mod=$3; shift 3
f=/verif/coq/Properties_$p.v
hdr=$(awk '/^Theorem/{exit} {print}' $f | grep -v "^(\*" )
echo "" >> $f
echo "$imp" >> $f
python3 /verif/tools/mkprops.py "$hdr
$imp" $mod "$@" >> $f
