module verifharness

go 1.13

require github.com/huderlem/poryscript v0.0.0

replace github.com/huderlem/poryscript => /repo
