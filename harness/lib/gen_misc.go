package lib

import (
	"fmt"
	"sort"
	"strings"
)

// ---------- FormatText cases ----------
type fnt struct {
	w      map[string]int
	def    int
	hasDef bool
}

func (f *fnt) get(k string) int {
	if v, ok := f.w[k]; ok {
		return v
	}
	if f.hasDef {
		return f.def
	}
	return 0
}
func (f *fnt) width(word string) int {
	total := 0
	rs := word
	for {
		i := strings.Index(rs, "{")
		if i < 0 {
			break
		}
		j := strings.Index(rs[i:], "}")
		if j < 0 {
			break
		}
		total += f.get(rs[i : i+j+1])
		for _, r := range rs[:i] {
			total += f.get(string(r))
		}
		rs = rs[i+j+1:]
	}
	for _, r := range rs {
		total += f.get(string(r))
	}
	return total
}

type FTok struct {
	S   string
	Brk bool
}

// FmtTokenize is an independent tokenizer of format() input: words (no top-level space), break codes isolated.
func FmtTokenize(text string) []FTok {
	var out []FTok
	var cur strings.Builder
	level := 0
	flush := func() {
		if cur.Len() > 0 {
			out = append(out, FTok{S: cur.String()})
			cur.Reset()
		}
	}
	rs := []rune(text)
	for i := 0; i < len(rs); i++ {
		c := rs[i]
		if c == '\n' {
			c = ' '
		}
		if level == 0 && c == '\\' && i+1 < len(rs) && strings.ContainsRune("nlpN", rs[i+1]) {
			flush()
			out = append(out, FTok{S: "\\" + string(rs[i+1]), Brk: true})
			i++
			continue
		}
		if c == ' ' && level == 0 {
			flush()
			continue
		}
		if c == '{' {
			level++
		} else if c == '}' && level > 0 {
			level--
		}
		cur.WriteRune(c)
	}
	flush()
	return out
}

var fmtAlphabet = []string{"a", "b", "c", "W", "i", ".", "é", "あ", "♂", "{PLAYER}", "{A B}", "{", "}", "\\h", "\\", "-", ":}"}

// GenFmt generates one FMT case. dbl allows two consecutive backslashes (boundary B7 stream).
func GenFmt(r *Rng, dbl bool) Case {
	for {
		f := &fnt{w: map[string]int{}}
		for _, a := range fmtAlphabet {
			if r.N(4) != 0 {
				f.w[a] = r.N(9)
			}
		}
		f.w[" "] = r.N(5)
		if r.N(2) == 0 {
			f.hasDef = true
			f.def = 1 + r.N(6)
		}
		var sb strings.Builder
		nw := r.N(12)
		for i := 0; i < nw; i++ {
			k := r.N(10)
			switch {
			case k == 0:
				sb.WriteString([]string{"\\n", "\\l", "\\p", "\\N"}[r.N(4)])
			default:
				wl := 1 + r.N(4)
				for j := 0; j < wl; j++ {
					a := fmtAlphabet[r.N(len(fmtAlphabet))]
					if !dbl && a == "\\" {
						a = "\\h"
					}
					sb.WriteString(a)
				}
			}
			for s := r.N(3); s > 0; s-- {
				sb.WriteString(" ")
			}
			if r.N(8) == 0 {
				sb.WriteString("\n")
			}
		}
		text := sb.String()
		if !dbl && strings.Contains(text, "\\\\") {
			continue
		}
		toks := FmtTokenize(text)
		maxW := 1 + r.N(40)
		if len(toks) > 0 && r.N(2) == 0 {
			k := 1 + r.N(len(toks))
			sum, cnt := 0, 0
			for _, t := range toks[:k] {
				if !t.Brk {
					if cnt > 0 {
						sum += f.w[" "]
					}
					sum += f.width(t.S)
					cnt++
				}
			}
			maxW = sum + r.N(3) - 1
		}
		cursor := []int{0, 0, 1, 3, 7}[r.N(5)]
		numLines := 1 + r.N(4)
		if f.hasDef {
			f.w["default"] = f.def
		}
		var spec []string
		for k, v := range f.w {
			spec = append(spec, Hex(k)+"="+fmt.Sprint(v))
		}
		sort.Strings(spec)
		fid := "f"
		switch r.N(14) {
		case 0:
			fid = "TEST"
		case 1:
			fid = "nofont"
		case 2:
			fid = ""
		}
		return Case{"FMT", []string{strings.Join(spec, ";"), fmt.Sprint(maxW), fmt.Sprint(cursor), fid, fmt.Sprint(numLines), Hex(text)}}
	}
}

// ---------- lexer cases ----------
var LexPieces = []string{"script", "foo", "héllo", "_x1", "日本", "if", "TRUE", "12", "0", "0x1F", "0x", "-7", "007", "٣", "x٣", "(", ")", "{", "}", "[", "]", ",", ":", "=", "==", "!", "!=", "<", "<=", ">", ">=", "&&", "||", "*", "\"str\"", "\"mül ti\"", "\"\"", "ascii\"typed\"", "`raw text   `", "`unterminated", "\"unterminated", "€", "&", "|", "-", "+", "/", "\"a\"", "x", "\x00", "�", " ", "  ", "\t", "\n", "\r\n", "# c é\n", "// c2\n", "#", "\"multi\nline  \n  \"", "\"a\" \"b\"", "\"a\"// c\n\"b\"", "\"a\" # c1\n // c2\n \"b\"", "\u0085", " ", "é\"x\"", "VAR_POKé", "0xAB", "0x1F"}

// GenLexSoup: random concatenation of pieces (incl. malformed ones).
func GenLexSoup(r *Rng) Case {
	k := 1 + r.N(12)
	var sb strings.Builder
	for i := 0; i < k; i++ {
		sb.WriteString(LexPieces[r.N(len(LexPieces))])
		if r.N(3) == 0 {
			sb.WriteString(" ")
		}
	}
	return Case{"LEX", []string{Hex(sb.String())}}
}

// well-formed lexemes of every token class
var Lexemes = []string{"script", "text", "movement", "mart", "mapscripts", "raw", "format", "var", "flag", "defeated", "TRUE", "FALSE", "true", "false",
	"if", "else", "elif", "do", "while", "break", "continue", "switch", "case", "default", "global", "local", "poryswitch", "const", "value", "moves",
	"foo", "héllo", "_x1", "日本", "Bar_9", "VAR_POKé", "12", "0", "0x1F", "0xAB", "-7", "007", "9999",
	"(", ")", "{", "}", "[", "]", ",", ":", "=", "==", "!", "!=", "<", "<=", ">", ">=", "&&", "||", "*",
	"\"str\"", "\"mül ti\"", "\"\"", "ascii\"typed\"", "braille\"é\"", "`raw text`", "€", "&", "|", "+", "/", "-", "@",
	"\"part one\"\x02\"part two\"", "\"a\"\x02\"b\"\x02\"c\"", "ascii\"x\"\x02\"y\""}

// GenLexemes returns a lexeme sequence (no two adjacent string literals: they would join).
func GenLexemes(r *Rng) Toks {
	k := 1 + r.N(14)
	var t Toks
	for i := 0; i < k; i++ {
		x := Lexemes[r.N(len(Lexemes))]
		if len(t) > 0 && strings.HasSuffix(t[len(t)-1], "\"") && strings.HasSuffix(x, "\"") {
			x = ","
		}
		if x == "/" && len(t) > 0 && t[len(t)-1] == "/" {
			x = ","
		}
		t = append(t, x)
	}
	return t
}

// ---------- malformed inputs ----------

// Mutate derives a malformed variant of a source text.
func Mutate(r *Rng, src string) string {
	f := strings.Fields(src)
	switch r.N(8) {
	case 0:
		rs := []rune(src) // cut at a rune boundary: C18 quantifies over valid UTF-8 only
		return string(rs[:r.N(len(rs)+1)])
	case 1:
		if len(f) > 2 {
			i := r.N(len(f))
			f = append(f[:i], f[i+1:]...)
		}
		return strings.Join(f, " ")
	case 2:
		if len(f) > 2 {
			i, j := r.N(len(f)), r.N(len(f))
			f[i], f[j] = f[j], f[i]
		}
		return strings.Join(f, "\n")
	case 3:
		if len(f) > 2 {
			i := r.N(len(f))
			f = append(f[:i+1], append([]string{f[i]}, f[i+1:]...)...)
		}
		return strings.Join(f, " ")
	case 4:
		if len(f) > 0 {
			i := r.N(len(f))
			f[i] = soupWords[r.N(len(soupWords))]
		}
		return strings.Join(f, " ")
	case 5:
		if len(f) > 0 {
			i := r.N(len(f) + 1)
			f = append(f[:i], append([]string{soupWords[r.N(len(soupWords))]}, f[i:]...)...)
		}
		return strings.Join(f, " ")
	case 6:
		// cut at a rune boundary and append garbage
		rs := []rune(src)
		return string(rs[:r.N(len(rs)+1)]) + soupWords[r.N(len(soupWords))]
	default:
		return Soup(r)
	}
}

var soupWords = []string{"script", "text", "movement", "mart", "mapscripts", "raw", "const", "poryswitch", "format", "moves", "if", "elif", "else", "while", "do", "switch", "case", "default", "break", "continue",
	"var", "flag", "defeated", "value", "global", "local", "TRUE", "FALSE", "(", ")", "{", "}", "[", "]", ",", ":", "=", "==", "!=", "<", ">", "<=", ">=", "&&", "||", "!", "*", "_",
	"S", "foo", "A", "V", "1", "0x10", "-2", "99999999999999999999", "\"str\"", "ascii\"x\"", "\"a\" \"b\"", "`raw`", "`open", "\"open", "# c\n", "// c\n", "\x00", "�", "é", "日本", "€", " ",
	"checkitem", "random", "specialvar", "msgbox", "goto", "end", "return", "step_end", "ITEM_NONE", "numLines", "fontId", "maxLineLength", "cursorOverlapWidth", "MAP_SCRIPT_ON_LOAD"}

// Soup: random token soup.
func Soup(r *Rng) string {
	n := 1 + r.N(30)
	var sb strings.Builder
	for i := 0; i < n; i++ {
		sb.WriteString(soupWords[r.N(len(soupWords))])
		sb.WriteString([]string{" ", " ", "\n", ""}[r.N(4)])
	}
	return sb.String()
}

// Seeds are well-formed programs covering every construct; used as a corpus and as mutation bases.
var Seeds = []string{
	"script S { if (flag(A)) { S_1: foo } }",
	"script S { if (flag(A)) { S: foo } }",
	"script S {\n foo\n MyText: bar }\ntext MyText { \"x\" }",
	"script S { msgbox(\"a\") S_Text_0: bar }",
	"script S { S_9: foo }",
	"script S {\n msgbox(format(\"Hello, this is some long text that I want Poryscript to automatically format for me.\"))\n}",
	"script S {\n msgbox(format(\"Hello, are you the real-live legendary {PLAYER} that everyone talks about?\\pAmazing!\\pSo glad to meet you!\", \"1_latin_rse\", 100))\n msgbox(format(\"This is an example of named parameters that wraps!\", numLines=3, maxLineLength=100))\n}",
	"script S {\n msgbox(format(ascii\"typed formatted text that is long enough to need wrapping somewhere\", 120, \"1_latin_frlg\", cursorOverlapWidth=10))\n msgbox(format(\"Same text twice to be shared\"))\n foo(format(\"Same text twice to be shared\"), format(\"Ünïcödé wörds ♂ in the text box should be measured with the default width\", 60))\n}",
	"text T { format(\"You are my favorite trainer!\\N...\\N...\\N...\\NBut I'm better! And some more words to wrap around the box\", fontId=\"1_latin_frlg\", numLines=1) }",
	"text U { format(\"a b\", 10, \"1_latin_rse\", numLines=1,) }\ntext V { poryswitch(V) { A: format(\"in a poryswitch case with enough words to wrap the line at least once\", 80) _: \"x\" } }",
	"script S {\n msgbox(format(\"x y\", \"bogus\"))\n}",
	"text T { format(\"a b\", 10, 20) }\ntext V { format(\"a b\", foo=1) }",
	"text W { format(\"a b\", numLines=2, numLines=3) }",
	"text X { format(\"a b\",) }",
	"script S { switch (var(V)) { case 1: foo default: bar case 2: } after }",
	"script S { switch (var(V)) { default: bar case 2: } after }",
	"script S { while (flag(A)) { foo break Lbl: bar } goto(Lbl) }",
	"const A = 1\nconst B = A + 1\nscript S {\n foo(A, B, \"x\", ascii\"y\")\n if (flag(A) && var(B) == A || defeated(A)) { goto(L) }\n L(global): switch (var(A)) { case A: x(A) case B: y }\n applymovement(A, moves(walk_up * 2 walk_down))\n msgbox(\"A B\")\n if (var(X) == value(A + (1))) { z }\n}\nmovement Mv { walk_up A * 0x3, b step_end c }\nmart Mt { A walk_up ITEM_NONE zz }\nmapscripts Ms { A: B  T { lock msgbox(\"t\") } U [ A, B: A  V, 2 { msgbox(\"t\") } ] }\ntext A { \"A\" \"second\" }\ntext(local) Z { braille\"br\" }\nraw `x\ny`\n",
	"script S { poryswitch(V) { A { foo poryswitch(W) { B: msgbox(\"b\") _ { never(\"n\") } } } B: other(\"o\") _ { fallback } } tail }\ntext T { poryswitch(V) { A: \"a\" _: ascii\"x\" } }\nmovement M { poryswitch(V) { A { l r } _: u } d }\nscript S2 { applymovement(1, moves(poryswitch(V) { A { l r } _: u } d)) }\nmart Q { poryswitch(W) { B: I1 _ { I2 I3 } } I4 }",
	"script S { if (checkitem(X) == 1 && !random(2) || specialvar(VAR_R, Foo)) { a } switch (random(3)) { case 0: b } switch (specialvar(VAR_Q, F)) { case 1: c default: d } }",
	"script(local) A { lock }\nscript(global) B { release }\ntext(global) T1 { \"g\" }\nmovement(global) M1 { walk_up }\nmart(global) Q1 { ITEM_A }\nmapscripts(local) MS { MAP_SCRIPT_ON_LOAD: X }",
	"script S { do { a continue } while (var(V) < 3) while { b if (flag(F)) { break } } }",
	"script S { if (flag(A) && flag(B) && flag(C) || flag(D)) { yes } else { no } }",
	"script S { if (flag(A) && (flag(B) || flag(C)) || flag(D)) { yes } elif (!(var(V) == 2 || !defeated(T))) { mid } }",
	"raw `\n  line1\n\tline2`\n\nscript S { end }\nraw `x`",
	"mapscripts M {\n MAP_SCRIPT_ON_TRANSITION: Foo\n MAP_SCRIPT_ON_FRAME_TABLE [\n  VAR_TEMP_0, 0: Bar\n  VAR_TEMP_0, 1 { lock msgbox(\"Hi\") release }\n ]\n MAP_SCRIPT_ON_RESUME { msgbox(\"r\") }\n MAP_SCRIPT_ON_WARP_INTO_MAP_TABLE [ ]\n}",
	"movement M { walk_up * 0 }",
	"movement M { walk_up * 10000 }",
	"movement M { walk_up * 9999 step_end }",
	"script S { msgbox(\"Hello\\n\" // c\n \"World\") }",
	"text T { \"abc\n  \" }",
	"script S { foo(�) } # é\n",
}

// LintNameProgram: scripts whose inline texts / movements sit in poryswitch cases (so that the labels the compiler generates
// depend on the switch values), followed by text / movement statements named like generated labels. With the default switches
// V=A, W=B some of these names clash and some do not; the lint parser has no switches at all and selects the '_' cases.
func LintNameProgram(r *Rng) string {
	var b strings.Builder
	names := []string{"S", "T", "U"}
	nscripts := 1 + r.N(3)
	k := 0
	content := func() string {
		k++
		switch r.N(6) {
		case 0, 1:
			return "lock"
		case 2:
			return fmt.Sprintf("msgbox(\"t%d\")", k)
		case 3:
			return fmt.Sprintf("applymovement(1, moves(walk_up * %d))", 1+k%4)
		case 4:
			return fmt.Sprintf("msgbox(format(\"some words to format %d\"))", k%3)
		}
		return fmt.Sprintf("msgbox(ascii\"t%d\") msgbox(\"t%d\")", k, k)
	}
	for i := 0; i < nscripts; i++ {
		fmt.Fprintf(&b, "script %s {\n", names[i])
		for j := 0; j < 1+r.N(2); j++ {
			if r.P(20) {
				fmt.Fprintf(&b, " %s\n", content())
				continue
			}
			sw, sel, other := "V", "A", "B"
			if r.P(40) {
				sw, sel, other = "W", "B", "A"
			}
			cases := []string{sel, "_", other}
			if r.P(30) {
				cases = cases[:2]
			}
			for x := len(cases) - 1; x > 0; x-- {
				y := r.N(x + 1)
				cases[x], cases[y] = cases[y], cases[x]
			}
			fmt.Fprintf(&b, " poryswitch(%s) {\n", sw)
			for _, v := range cases {
				if r.P(50) {
					c := content()
					if idx := strings.Index(c, ") "); idx >= 0 {
						c = c[:idx+1]
					}
					fmt.Fprintf(&b, "  %s: %s\n", v, c)
				} else {
					fmt.Fprintf(&b, "  %s { %s }\n", v, content())
				}
			}
			b.WriteString(" }\n")
		}
		b.WriteString("}\n")
	}
	for j := 0; j < 1+r.N(2); j++ {
		n := names[r.N(nscripts)]
		if r.P(60) {
			fmt.Fprintf(&b, "text %s_Text_%d { \"user %d\" }\n", n, r.N(2), j)
		} else {
			fmt.Fprintf(&b, "movement %s_Movement_0 { walk_down }\n", n)
		}
	}
	if r.P(20) {
		// text position: the selected case decides the content, hence the sharing with inline texts
		b.WriteString("text Shared { poryswitch(V) { A: \"t1\" _: \"t2\" } }\n")
	}
	return b.String()
}
