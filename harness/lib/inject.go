package lib

import (
	"fmt"
	"strings"
)

type blockRef struct {
	ss            *[]*Stmt
	inLoop, inBrk bool
}

func collectBlocks(ss *[]*Stmt, inLoop, inBrk bool, acc *[]blockRef, sws *[]*Stmt) {
	*acc = append(*acc, blockRef{ss, inLoop, inBrk})
	for _, s := range *ss {
		switch s.Kind {
		case "if":
			for i := range s.Bodies {
				collectBlocks(&s.Bodies[i], inLoop, inBrk, acc, sws)
			}
			if s.HasEls {
				collectBlocks(&s.Els, inLoop, inBrk, acc, sws)
			}
		case "while", "dowhile":
			collectBlocks(&s.Body, true, true, acc, sws)
		case "switch":
			*sws = append(*sws, s)
			for _, c := range s.Cases {
				collectBlocks(&c.Body, inLoop, true, acc, sws)
			}
		}
	}
}

func insertAt(ss *[]*Stmt, i int, s *Stmt) {
	l := append([]*Stmt{}, (*ss)[:i]...)
	l = append(l, s)
	l = append(l, (*ss)[i:]...)
	*ss = l
}

// InjectViolationAST inserts one C20 violation into the body; returns its kind ("" if impossible).
func InjectViolationAST(r *Rng, body *[]*Stmt) string {
	var blocks []blockRef
	var sws []*Stmt
	collectBlocks(body, false, false, &blocks, &sws)
	pick := func(f func(b blockRef) bool) *blockRef {
		var c []blockRef
		for _, b := range blocks {
			if f(b) {
				c = append(c, b)
			}
		}
		if len(c) == 0 {
			return nil
		}
		return &c[r.N(len(c))]
	}
	for try := 0; try < 8; try++ {
		switch r.N(5) {
		case 0:
			if b := pick(func(b blockRef) bool { return !b.inBrk }); b != nil {
				insertAt(b.ss, r.N(len(*b.ss)+1), &Stmt{Kind: "viol", Args: []string{"break"}})
				return "break-outside"
			}
		case 1:
			if b := pick(func(b blockRef) bool { return !b.inLoop }); b != nil {
				insertAt(b.ss, r.N(len(*b.ss)+1), &Stmt{Kind: "viol", Args: []string{"continue"}})
				return "continue-outside"
			}
		case 2:
			if b := pick(func(b blockRef) bool { return b.inLoop && len(*b.ss) > 0 }); b != nil {
				insertAt(b.ss, r.N(len(*b.ss)), &Stmt{Kind: "viol", Args: []string{"continue"}})
				return "continue-not-last"
			}
		case 3:
			if len(sws) > 0 {
				s := sws[r.N(len(sws))]
				var vals []*SCase
				for _, c := range s.Cases {
					if !c.Def {
						vals = append(vals, c)
					}
				}
				if len(vals) > 0 {
					v := vals[r.N(len(vals))]
					idx := 0
					for i, c := range s.Cases {
						if c == v {
							idx = i
						}
					}
					pos := idx + 1 + r.N(len(s.Cases)-idx)
					nc := &SCase{Mark: true, Val: v.Val}
					if r.P(50) {
						nc.Body = []*Stmt{{Kind: "cmd", Name: "dupbody"}}
					}
					l := append([]*SCase{}, s.Cases[:pos]...)
					l = append(l, nc)
					s.Cases = append(l, s.Cases[pos:]...)
					return "duplicate-case"
				}
			}
		default:
			if len(sws) > 0 {
				s := sws[r.N(len(sws))]
				first := -1
				for i, c := range s.Cases {
					if c.Def {
						first = i
					}
				}
				if first < 0 {
					first = r.N(len(s.Cases) + 1)
					l := append([]*SCase{}, s.Cases[:first]...)
					l = append(l, &SCase{Def: true, Body: []*Stmt{{Kind: "cmd", Name: "firstdef"}}})
					s.Cases = append(l, s.Cases[first:]...)
				}
				pos := first + 1 + r.N(len(s.Cases)-first)
				l := append([]*SCase{}, s.Cases[:pos]...)
				l = append(l, &SCase{Mark: true, Def: true})
				s.Cases = append(l, s.Cases[pos:]...)
				return "two-defaults"
			}
		}
	}
	return ""
}

// OnePerLine prints one lexeme per line; a "\x01" lexeme marks the next one, whose line is returned.
func OnePerLine(t Toks) (string, int) {
	var sb strings.Builder
	line, marked := 0, 0
	mark := false
	for _, x := range t {
		if x == "\x01" {
			mark = true
			continue
		}
		line++
		if mark {
			marked = line
			mark = false
		}
		sb.WriteString(x + "\n")
	}
	return sb.String(), marked
}

// InjectViolation: the token-level entry used by gencases: t must be ScriptToks of a body built by the caller.
// (kept for API symmetry; gencases uses InjectInto.)
func InjectViolation(r *Rng, t Toks) (string, int, bool) { return "", 0, false }

// InjectInto builds a program around a random script body with one violation; returns source, expected
// error line and the violation kind.
func InjectInto(r *Rng) (string, int, string) {
	g := NewScriptGen(r)
	g.MaxDepth = 3
	g.UseGoto = false
	g.Prefix = "k"
	if r.P(40) {
		g.UsePory = false
	}
	body := g.Block(0, false, false, 5)
	if len(body) == 0 {
		body = []*Stmt{{Kind: "cmd", Name: "only"}}
	}
	var pre, post Toks
	if r.P(30) {
		pre = Toks{"script", "Before", "{", "lock", "}"}
	}
	if r.P(30) {
		post = Toks{"movement", "After", "{", "walk_up", "}"}
	}
	kind := ""
	var t Toks
	if r.P(12) {
		// constant redefinition at top level
		kind = "const-redefinition"
		t = append(t, "const", "KA", "=", "1")
		t = append(t, pre...)
		t = append(t, ScriptToks("Scr", "", body)...)
		t = append(t, "const", "\x01", "KA", "=", "2") // the error names the redefined identifier
		t = append(t, post...)
	} else {
		kind = InjectViolationAST(r, &body)
		if kind == "" {
			return "", 0, ""
		}
		t = append(t, pre...)
		wrap := r.N(3)
		switch wrap {
		case 0:
			t = append(t, ScriptToks("Scr", "", body)...)
		case 1:
			t = append(t, "mapscripts", "Map", "{", "MAP_SCRIPT_ON_LOAD", "{")
			t = append(t, BlockToks(body)...)
			t = append(t, "}", "}")
		default:
			t = append(t, "mapscripts", "Map", "{", "MAP_SCRIPT_ON_FRAME_TABLE", "[", "VAR_T", ",", "1", "{")
			t = append(t, BlockToks(body)...)
			t = append(t, "}", "]", "}")
		}
		t = append(t, post...)
	}
	src, line := OnePerLine(t)
	return src, line, kind
}

type FixedViolation struct {
	Src  string
	Line int
}

func fv(lines ...string) FixedViolation {
	// the line starting with "@@" is the offending one
	n := 0
	for i, l := range lines {
		if strings.HasPrefix(l, "@@") {
			n = i + 1
			lines[i] = l[2:]
		}
	}
	return FixedViolation{strings.Join(lines, "\n") + "\n", n}
}

// FixedViolations: name clashes and violations in special positions.
var FixedViolations = []FixedViolation{
	fv("script A {", "msgbox(\"x\")", "}", "@@text A_Text_0 {", "\"y\"", "}"),
	fv("@@text A_Text_0 {", "\"y\"", "}", "script A {", "msgbox(\"x\")", "}"),
	fv("script A {", "msgbox(\"x\")", "}", "script B {", "msgbox(\"x2\")", "msgbox(\"x3\")", "}", "@@text B_Text_1 {", "\"y\"", "}"),
	fv("script A {", "foo(moves(walk_up))", "}", "@@movement A_Movement_0 {", "walk_down", "}"),
	// the clashing statement has exactly the content (and type) of the generated one: still a clash, not a harmless duplicate
	fv("script A {", "msgbox(\"x\")", "}", "@@text A_Text_0 {", "\"x\"", "}"),
	fv("@@text(global) A_Text_0 {", "\"x\"", "}", "script A {", "msgbox(\"x\")", "}"),
	fv("script A {", "msgbox(ascii\"x\")", "}", "@@text(local) A_Text_0 {", "ascii\"x\"", "}"),
	fv("script A {", "foo(moves(walk_up))", "}", "@@movement A_Movement_0 {", "walk_up", "}"),
	fv("@@movement A_Movement_0 {", "walk_down", "}", "script A {", "foo(moves(walk_up))", "}"),
	fv("mapscripts M {", "MAP_SCRIPT_ON_LOAD {", "msgbox(\"x\")", "}", "}", "@@text M_MAP_SCRIPT_ON_LOAD_Text_0 {", "\"y\"", "}"),
	fv("script A {", "if (flag(F)) {", "a", "}", "@@A_1:", "b", "}"),
	fv("script A {", "@@A_2:", "if (flag(F)) {", "a", "}", "b", "}"),
	fv("script MyScript {", "@@MyScript_2:", "if (flag(F)) {", "a", "}", "b", "c", "}"),
	fv("script A {", "@@A:", "b", "}"),
	fv("script A {", "lock", "@@MyText:", "b", "}", "text MyText {", "\"t\"", "}"),
	fv("script A {", "msgbox(\"x\")", "@@A_Text_0:", "b", "}"),
	fv("script First {", "if (flag(F)) {", "a", "}", "b", "}", "script A {", "while (flag(G)) {", "@@A_3:", "x", "}", "}"),
	// the same label clashes written with a scope modifier, and inside inline map scripts
	fv("script A {", "if (flag(F)) {", "a", "}", "@@A_1(global):", "b", "}"),
	fv("script A {", "if (flag(F)) {", "a", "}", "@@A_1(local):", "b", "}"),
	fv("script A {", "@@A_2(global):", "if (flag(F)) {", "a", "}", "b", "}"),
	fv("script A {", "msgbox(\"x\")", "@@A_Text_0(global):", "b", "}"),
	fv("script A {", "lock", "@@MyText(global):", "b", "}", "text MyText {", "\"t\"", "}"),
	fv("script A {", "lock", "@@MyText(local):", "b", "}", "text(local) MyText {", "\"t\"", "}"),
	fv("script A {", "@@A(global):", "b", "}"),
	fv("mapscripts M {", "MAP_SCRIPT_ON_LOAD {", "if (flag(F)) {", "a", "}", "@@M_MAP_SCRIPT_ON_LOAD_1(global):", "b", "}", "}"),
	fv("mapscripts M {", "MAP_SCRIPT_ON_FRAME_TABLE [", "V, 1 {", "while (flag(F)) {", "@@M_MAP_SCRIPT_ON_FRAME_TABLE_0_2:", "a", "}", "}", "]", "}"),
	fv("mapscripts M {", "MAP_SCRIPT_ON_FRAME_TABLE [", "V, 1 {", "msgbox(\"x\")", "@@M_MAP_SCRIPT_ON_FRAME_TABLE_0_Text_0(global):", "a", "}", "]", "}"),
	fv("script A {", "while (flag(L)) {", "switch (var(V)) {", "case 1:", "@@continue", "after", "}", "}", "}"),
	fv("script A {", "do {", "switch (var(V)) {", "default:", "@@continue", "after", "}", "} while (flag(L))", "}"),
	fv("script A {", "switch (var(V)) {", "case 1:", "@@continue", "}", "}"),
	fv("script A {", "while (flag(L)) {", "a", "}", "@@break", "}"),
	fv("script A {", "if (flag(L)) {", "@@break", "}", "}"),
	fv("const ONE = 1", "script A {", "switch (var(V)) {", "case 1:", "a", "@@case ONE:", "b", "}", "}"),
	fv("const X = 1", "const Y = 1", "script A {", "switch (var(V)) {", "case X:", "a", "@@case Y:", "b", "}", "}"),
	fv("script A {", "switch (var(V)) {", "case 1 + 1:", "a", "@@case 1 + 1:", "b", "}", "}"),
	fv("script A {", "switch (var(V)) {", "default:", "a", "case 2:", "@@default:", "}", "}"),
	fv("const A = 1", "script S {", "x", "}", "@@const A = 1"),
	fv("script A {", "poryswitch(V) {", "A {", "@@break", "}", "_: x", "}", "}"),
	fv("script A {", "while (flag(L)) {", "poryswitch(V) {", "A {", "@@continue", "more", "}", "_: x", "}", "}", "}"),
}

func init() { _ = fmt.Sprint }
