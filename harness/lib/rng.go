package lib

import "strings"

// Rng is splitmix64; every random choice of the harness derives from one state.
type Rng struct{ S uint64 }

func NewRng(seed uint64) *Rng { return &Rng{S: seed} }

func (r *Rng) Next() uint64 {
	r.S += 0x9e3779b97f4a7c15
	z := r.S
	z = (z ^ (z >> 30)) * 0xbf58476d1ce4e5b9
	z = (z ^ (z >> 27)) * 0x94d049bb133111eb
	return z ^ (z >> 31)
}
func (r *Rng) N(k int) int {
	if k <= 0 {
		return 0
	}
	return int(r.Next() % uint64(k))
}
func (r *Rng) P(pc int) bool        { return r.N(100) < pc }
func (r *Rng) Pick(l []string) string { return l[r.N(len(l))] }

// Toks is a sequence of lexemes; a layout turns it into source text.
type Toks []string

func isWordy(c byte) bool {
	return c == '_' || c >= '0' && c <= '9' || c >= 'a' && c <= 'z' || c >= 'A' && c <= 'Z' || c >= 128
}

// needSep reports whether lexemes a and b would fuse or change meaning when written adjacently.
func needSep(a, b string) bool {
	if a == "" || b == "" {
		return false
	}
	x, y := a[len(a)-1], b[0]
	if isWordy(x) && (isWordy(y) || y == '"') {
		return true
	}
	if (x == '-') && (y >= '0' && y <= '9') {
		return true
	}
	if strings.ContainsRune("=!<>&|/-#", rune(x)) && strings.ContainsRune("=!<>&|/-#", rune(y)) {
		return true
	}
	if x == '"' && y == '"' { // adjacent literals would be joined into one multi-part literal
		return true
	}
	return false
}

// Canon prints lexemes with single spaces and a newline after { } and before statements
// starting keywords - a plain readable layout.
func (t Toks) Canon() string {
	var sb strings.Builder
	for i, x := range t {
		x = strings.ReplaceAll(x, "\x02", " ")
		if i > 0 {
			if t[i-1] == "{" || t[i-1] == "}" || x == "}" || strings.HasSuffix(t[i-1], "\n") {
				if !strings.HasSuffix(t[i-1], "\n") {
					sb.WriteString("\n")
				}
			} else {
				sb.WriteString(" ")
			}
		}
		sb.WriteString(x)
	}
	sb.WriteString("\n")
	return sb.String()
}

var wsPieces = []string{" ", "  ", "\t", "\n", "\r\n", "\n\n", " \n ", "# note\n", "// note ü\n", " # x y z\n\t", "\n//\n"}

// Layout prints lexemes with random runs of whitespace and comments between them. With
// dense = true it uses no separator wherever that is safe.
func (t Toks) Layout(r *Rng, dense bool) string {
	var sb strings.Builder
	for i, x := range t {
		if i > 0 {
			need := needSep(t[i-1], x)
			if strings.HasPrefix(x, "`") || strings.HasSuffix(t[i-1], "`") {
				need = true
			}
			k := r.N(4)
			if dense {
				k = 0
			}
			if need && k == 0 {
				k = 1
			}
			for j := 0; j < k; j++ {
				w := wsPieces[r.N(len(wsPieces))]
				if j == 0 && strings.HasSuffix(t[i-1], "/") && strings.HasPrefix(w, "/") {
					w = " " + w // a '/' lexeme must not fuse with a following '//' comment
				}
				sb.WriteString(w)
			}
		}
		for strings.Contains(x, "\x02") {
			// the parts of a multi-part string literal may be separated by any layout (at least nothing)
			sep := ""
			for k := r.N(4); k > 0; k-- {
				sep += wsPieces[r.N(len(wsPieces))]
			}
			x = strings.Replace(x, "\x02", sep, 1)
		}
		sb.WriteString(x)
	}
	if r.P(50) {
		w := wsPieces[r.N(len(wsPieces))]
		if len(t) > 0 && strings.HasSuffix(t[len(t)-1], "/") && strings.HasPrefix(w, "/") {
			w = " " + w
		}
		sb.WriteString(w)
	}
	return sb.String()
}

// LinePer prints one lexeme per line (every construct on its own line), with blank
// lines and comments in between.
func (t Toks) LinePer(r *Rng) string {
	var sb strings.Builder
	for _, x := range t {
		for r.P(20) {
			sb.WriteString([]string{"\n", "# c\n", "  // c\n"}[r.N(3)])
		}
		sb.WriteString(x + "\n")
	}
	return sb.String()
}
