package lib

import (
	"fmt"
	"strconv"
)

// Pair: a program as written (A) and its twin (B) with every poryswitch replaced by the selected
// case and every constant use replaced by its expanded value.
type Pair struct{ A, B Toks }

func Cat(ps ...Pair) Pair {
	var p Pair
	for _, x := range ps {
		p.A = append(p.A, x.A...)
		p.B = append(p.B, x.B...)
	}
	return p
}
func Same(t ...string) Pair { return Pair{Toks(t), append(Toks{}, t...)} }

// ProgGen generates whole programs.
type ProgGen struct {
	R        *Rng
	Sw       map[string]string
	Consts   [][2]string // name, expanded value tokens joined by space
	ConstTok map[string]Toks
	UseConst, UsePory, UseFormat, UseScopes, UseMapscripts, UseRaw, UseControl bool
	NCmd     int
	TextPool []string
	Depth    int
}

func NewProgGen(r *Rng) *ProgGen {
	g := &ProgGen{R: r, Sw: map[string]string{}, ConstTok: map[string]Toks{}, UsePory: true, UseScopes: true, UseMapscripts: true, UseRaw: true, UseControl: true,
		TextPool: []string{"Hello", "Bye$", "A longer text with words", "ünï cödé ♂", "x\\0", "two\\nlines", "ends$$", ""}}
	for _, s := range []string{"V", "W"} {
		g.Sw[s] = []string{"A", "B", "C", "Z"}[r.N(4)]
	}
	return g
}

var porySwitchNames = []string{"V", "W"}

// poryswitch wrapper: f produces the payload for a case; multi = brace form.
func (g *ProgGen) poryswitch(depth int, f func(depth int, multi bool) Pair) Pair {
	name := porySwitchNames[g.R.N(2)]
	val := g.Sw[name]
	nc := 1 + g.R.N(3)
	perm := []string{"A", "B", "C"}
	for i := range perm {
		j := g.R.N(len(perm))
		perm[i], perm[j] = perm[j], perm[i]
	}
	cases := perm[:nc]
	hasDefault := g.R.P(60)
	matched := false
	for _, c := range cases {
		if c == val {
			matched = true
		}
	}
	if !matched && !hasDefault {
		hasDefault = true
	}
	a := Toks{"poryswitch", "(", name, ")", "{"}
	var selected Toks
	emit := func(label string) {
		brace := g.R.P(50)
		body := f(depth+1, brace)
		if brace {
			a = append(a, label, "{")
			a = append(a, body.A...)
			a = append(a, "}")
		} else {
			a = append(a, label, ":")
			a = append(a, body.A...)
		}
		if label == val || (label == "_" && !matched) {
			selected = body.B
		}
	}
	defAt := g.R.N(len(cases) + 1)
	for i, c := range cases {
		if hasDefault && i == defAt {
			emit("_")
		}
		emit(c)
	}
	if hasDefault && defAt == len(cases) {
		emit("_")
	}
	a = append(a, "}")
	return Pair{a, selected}
}

func (g *ProgGen) constUse() Pair {
	if g.UseConst && len(g.Consts) > 0 && g.R.P(50) {
		c := g.Consts[g.R.N(len(g.Consts))]
		return Pair{Toks{c[0]}, append(Toks{}, g.ConstTok[c[0]]...)}
	}
	return Same(fmt.Sprintf("X%d", g.R.N(5)))
}

func (g *ProgGen) textLit() string {
	c := g.TextPool[g.R.N(len(g.TextPool))]
	ty := []string{"", "", "", "ascii", "braille", "custom"}[g.R.N(6)]
	if g.R.P(15) {
		c2 := g.TextPool[g.R.N(len(g.TextPool))]
		return ty + "\"" + c + "\" \"" + c2 + "\""
	}
	return ty + "\"" + c + "\""
}

func (g *ProgGen) formatCall() Toks {
	txt := []string{"Hello, this is some long text that should be wrapped by the compiler.", "Short one", "Two paragraphs here\\pand there is the second one which is long", "{PLAYER} got {STR_VAR_1} items\\Nnext\\Nand more words to fill the box"}[g.R.N(4)]
	t := Toks{"format", "(", "\"" + txt + "\""}
	switch g.R.N(6) {
	case 0:
		t = append(t, ",", "\"1_latin_rse\"")
	case 1:
		t = append(t, ",", strconv.Itoa(60+g.R.N(100)))
	case 2:
		t = append(t, ",", "\"1_latin_frlg\"", ",", strconv.Itoa(60+g.R.N(100)))
	case 3:
		t = append(t, ",", "numLines", "=", strconv.Itoa(1+g.R.N(3)), ",", "maxLineLength", "=", strconv.Itoa(60+g.R.N(100)))
	case 4:
		t = append(t, ",", strconv.Itoa(80+g.R.N(60)), ",", "cursorOverlapWidth", "=", strconv.Itoa(g.R.N(12)))
	}
	return append(t, ")")
}

func (g *ProgGen) stmts(depth int, multi bool) Pair {
	n := 1
	if multi {
		n = g.R.N(4)
	}
	var p Pair
	for i := 0; i < n; i++ {
		p = Cat(p, g.stmt(depth))
	}
	return p
}

func (g *ProgGen) stmt(depth int) Pair {
	g.NCmd++
	k := g.R.N(12)
	if depth > 2 && k >= 6 {
		k = g.R.N(6)
	}
	switch {
	case k < 2:
		a, b := g.constUse(), g.constUse()
		return Cat(Same(fmt.Sprintf("cmd%d", g.NCmd), "("), a, Same(","), b, Same(")"))
	case k < 3:
		return Same("msgbox", "(", g.textLit(), ")")
	case k < 4:
		if g.UseFormat && g.R.P(50) {
			return Cat(Same("msgbox", "("), Pair{g.formatCall(), nil}.dup(), Same(")"))
		}
		return Cat(Same("applymovement", "(", "1", ",", "moves", "("), g.steps(depth, true), Same(")", ")"))
	case k < 5:
		return Same(fmt.Sprintf("plain%d", g.NCmd))
	case k < 6:
		g.NCmd++
		return Same(fmt.Sprintf("Lb%d", g.NCmd), ":")
	case k < 8 && g.UseControl:
		c, v := g.constUse(), g.constUse()
		return Cat(Same("if", "(", "var", "("), c, Same(")", "=="), v, Same("&&", "flag", "("), g.constUse(), Same(")", ")", "{"), g.stmts(depth+1, true), Same("}"))
	case k < 9 && g.UseControl:
		c, cv := g.constUse(), g.constUse()
		return Cat(Same("switch", "(", "var", "("), c, Same(")", ")", "{", "case"), cv, Same(":"), g.stmts(depth+1, true), Same("case", "99", ":", "other", "}"))
	case k < 10 && g.UseControl:
		return Cat(Same("while", "(", "defeated", "("), g.constUse(), Same(")", ")", "{"), g.stmts(depth+1, true), Same("}"))
	default:
		if g.UsePory {
			return g.poryswitch(depth, g.stmts)
		}
		return Same(fmt.Sprintf("plain%d", g.NCmd))
	}
}

func (p Pair) dup() Pair { return Pair{p.A, append(Toks{}, p.A...)} }

func (g *ProgGen) steps(depth int, multi bool) Pair {
	n := 1
	if multi {
		n = g.R.N(5)
	}
	var p Pair
	for i := 0; i < n; i++ {
		if g.UsePory && depth < 3 && g.R.P(20) {
			p = Cat(p, g.poryswitch(depth, g.steps))
		} else {
			s := []string{"walk_up", "walk_down", "face_left", "delay_16", "step_end", "jump"}[g.R.N(6)]
			if s == "step_end" && g.R.P(70) {
				s = "walk_left"
			}
			p = Cat(p, Same(s))
			if g.R.P(30) {
				p = Cat(p, Same("*", []string{"1", "2", "3", "0x2", "010"}[g.R.N(5)]))
			}
			if multi && g.R.P(20) {
				p = Cat(p, Same(","))
			}
		}
	}
	return p
}

func (g *ProgGen) items(depth int, multi bool) Pair {
	n := 1
	if multi {
		n = g.R.N(5)
	}
	var p Pair
	for i := 0; i < n; i++ {
		if g.UsePory && depth < 3 && g.R.P(20) {
			p = Cat(p, g.poryswitch(depth, g.items))
		} else if g.UseConst && len(g.Consts) > 0 && g.R.P(30) {
			p = Cat(p, Pair{Toks{"KI"}, Toks{"ITEM_CONST"}})
		} else if g.R.P(8) {
			p = Cat(p, Same("ITEM_NONE"))
		} else {
			p = Cat(p, Same(fmt.Sprintf("ITEM_%d", g.R.N(4))))
		}

	}
	return p
}

func (g *ProgGen) textValue(depth int, multi bool) Pair {
	if g.UseFormat && g.R.P(25) {
		return Pair{g.formatCall(), nil}.dup()
	}
	return Same(g.textLit())
}

func scopeToks(r *Rng, use bool) Toks {
	if use && r.P(40) {
		return Toks{"(", []string{"global", "local"}[r.N(2)], ")"}
	}
	return nil
}

// Program generates one program.
func (g *ProgGen) Program() Pair {
	var prog Pair
	if g.UseConst {
		// K4 mentions K5 before K5 is a constant: its value is the text as written at the definition
		prog = Cat(prog, Pair{Toks{"const", "K1", "=", "7", "const", "K2", "=", "K1", "+", "BASE", "const", "K3", "=", "FLAG_TEMP", "const", "KI", "=", "ITEM_CONST", "const", "K4", "=", "K5", "+", "1", "const", "K5", "=", "9"}, nil})
		g.Consts = [][2]string{{"K1", "7"}, {"K2", "7 + BASE"}, {"K3", "FLAG_TEMP"}, {"K4", "K5 + 1"}, {"K5", "9"}}
		g.ConstTok["K1"] = Toks{"7"}
		g.ConstTok["K2"] = Toks{"7", "+", "BASE"}
		g.ConstTok["K3"] = Toks{"FLAG_TEMP"}
		g.ConstTok["K4"] = Toks{"K5", "+", "1"}
		g.ConstTok["K5"] = Toks{"9"}
	}
	ns := 1 + g.R.N(4)
	for i := 0; i < ns; i++ {
		sc := scopeToks(g.R, g.UseScopes)
		hdr := func(kw, name string) Pair { return Cat(Same(kw), Pair{sc, sc}.DupA(), Same(name, "{")) }
		switch g.R.N(8) {
		case 0, 1, 2:
			prog = Cat(prog, hdr("script", fmt.Sprintf("S%d", i)), g.stmts(0, true), Same("}"))
		case 3:
			var body Pair
			if g.UsePory && g.R.P(50) {
				body = g.poryswitch(0, g.textValue)
			} else {
				body = g.textValue(0, false)
			}
			prog = Cat(prog, hdr("text", fmt.Sprintf("T%d", i)), body, Same("}"))
		case 4:
			prog = Cat(prog, hdr("movement", fmt.Sprintf("M%d", i)), g.steps(0, true), Same("}"))
		case 5:
			prog = Cat(prog, hdr("mart", fmt.Sprintf("Mt%d", i)), g.items(0, true), Same("}"))
		case 6:
			if g.UseMapscripts {
				prog = Cat(prog, hdr("mapscripts", fmt.Sprintf("Map%d", i)), g.Mapscripts(i), Same("}"))
			} else {
				prog = Cat(prog, hdr("script", fmt.Sprintf("S%d", i)), g.stmts(0, true), Same("}"))
			}
		default:
			if g.UseRaw {
				prog = Cat(prog, Same("raw", "`\nraw_line_"+strconv.Itoa(i)+"\n\tsecond line `"))
			} else {
				prog = Cat(prog, hdr("movement", fmt.Sprintf("M%d", i)), g.steps(0, true), Same("}"))
			}
		}
	}
	return prog
}

func (p Pair) DupA() Pair { return Pair{p.A, append(Toks{}, p.A...)} }

var mapTypes = []string{"MAP_SCRIPT_ON_LOAD", "MAP_SCRIPT_ON_TRANSITION", "MAP_SCRIPT_ON_RESUME", "MAP_SCRIPT_ON_FRAME_TABLE", "MAP_SCRIPT_ON_WARP_INTO_MAP_TABLE", "MAP_SCRIPT_ON_RETURN_TO_FIELD"}

func (g *ProgGen) Mapscripts(idx int) Pair {
	var p Pair
	n := g.R.N(5)
	perm := g.R.N(len(mapTypes))
	for i := 0; i < n; i++ {
		ty := mapTypes[(perm+i)%len(mapTypes)]
		switch g.R.N(3) {
		case 0:
			p = Cat(p, Same(ty, ":", fmt.Sprintf("Ext_%d_%d", idx, i)))
		case 1:
			p = Cat(p, Same(ty, "{"), g.stmts(1, true), Same("}"))
		default:
			p = Cat(p, Same(ty, "["))
			m := g.R.N(4)
			for j := 0; j < m; j++ {
				v, c := g.constUse(), g.constUse()
				switch g.R.N(6) { // expressions of several tokens on either side
				case 0:
					c = Cat(c, Same("+", "1"))
				case 1:
					v = Cat(Same("("), v, Same(")"))
				case 2:
					c = Cat(Same("BASE", "+"), c)
					v = Cat(v, Same("+"), g.constUse())
				}
				p = Cat(p, v, Same(","), c)
				if g.R.P(50) {
					p = Cat(p, Same(":", fmt.Sprintf("Tab_%d_%d_%d", idx, i, j)))
				} else {
					p = Cat(p, Same("{"), g.stmts(1, true), Same("}"))
				}
			}
			p = Cat(p, Same("]"))
		}
	}
	return p
}

// StepsA / ItemsA: plain lists (source side only).
func (g *ProgGen) StepsA(n int) Toks {
	var t Toks
	for i := 0; i < n; i++ {
		t = append(t, g.steps(3, false).A...)
	}
	return t
}
func (g *ProgGen) ItemsA(n int) Toks {
	var t Toks
	for i := 0; i < n; i++ {
		t = append(t, g.items(3, false).A...)
	}
	return t
}
