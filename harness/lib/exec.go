// Package lib: case representation and execution of the real implementation.
//
// A case line is tab separated: KIND, input fields..., result fields...  The input
// fields are self-contained (options, configs, source), so a case file can be re-executed
// against the current /repo (replay, corpus) by dropping the result fields.
package lib

import (
	"runtime"
	"encoding/hex"
	"encoding/json"
	"fmt"
	"io/ioutil"
	"os"
	"sort"
	"strings"
	"sync"
	"time"
	"unicode"

	"github.com/huderlem/poryscript/emitter"
	"github.com/huderlem/poryscript/lexer"
	"github.com/huderlem/poryscript/parser"
)

// RepoDir is the repository under test (its config files are read from here).
var RepoDir = func() string {
	if v := os.Getenv("PORY_REPO"); v != "" {
		return v
	}
	return "/repo"
}()

func Hex(s string) string { return hex.EncodeToString([]byte(s)) }
func Unhex(s string) string {
	b, err := hex.DecodeString(s)
	if err != nil {
		return ""
	}
	return string(b)
}

// Case is one input for the implementation. Kind in CASE LEX FMT META; directives
// (PROJ, ORACLE, NOTE) are carried through unchanged with Kind = directive name.
type Case struct {
	Kind   string
	Fields []string // input fields only
}

// number of input fields per kind
var NIn = map[string]int{"CASE": 10, "LEX": 1, "LEXPAIR": 2, "FMT": 6, "META": 3}

// Opts of an end-to-end compilation.
type Opts struct {
	Opt, Lint  bool
	Sw         map[string]string
	LmPath     string
	LmOn       bool   // line markers requested although no input path is given (stdin)
	Cfg        string // autovar spec "name=VAR,name=#pos"; "" = the repository's command_config.json
	FontSpec   string // "" = the repository's font_config.json; else "default\tfonts" spec (see FontSpecOf)
	CliFont    string
	CliMaxLen  int
	Expect     string // "" | "accept" | "errline=N" : what the property demands of the implementation on this input
}

func swSpec(sw map[string]string) string {
	var l []string
	for k, v := range sw {
		l = append(l, k+"="+v)
	}
	sort.Strings(l)
	return strings.Join(l, ",")
}
func parseSw(s string) map[string]string {
	m := map[string]string{}
	for _, kv := range strings.Split(s, ",") {
		p := strings.SplitN(kv, "=", 2)
		if len(p) == 2 {
			m[p[0]] = p[1]
		}
	}
	return m
}
func b01(b bool) string {
	if b {
		return "1"
	}
	return "0"
}

// E2E builds a CASE.
func E2E(src string, o Opts) Case {
	src = strings.ToValidUTF8(src, "") // every property quantifies over valid UTF-8 text only
	sw := swSpec(o.Sw)
	if o.Lint {
		sw = ""
	}
	return Case{"CASE", []string{b01(o.Opt), b01(o.Lint), sw, b01(o.LmOn || o.LmPath != "") + ":" + Hex(o.LmPath), cfgOrDefault(o.Cfg), o.FontSpec, o.CliFont, fmt.Sprint(o.CliMaxLen), o.Expect, Hex(src)}}
}

var defaultCfgSpec string
var defaultCfgOnce sync.Once

// DefaultCfgSpec renders the repository's command_config.json as an autovar spec.
func DefaultCfgSpec() string {
	defaultCfgOnce.Do(func() {
		var cfg parser.CommandConfig
		b, _ := ioutil.ReadFile(RepoDir + "/command_config.json")
		json.Unmarshal(b, &cfg)
		var av []string
		for k, v := range cfg.AutoVarCommands {
			if v.VarNameArgPosition != nil {
				av = append(av, fmt.Sprintf("%s=#%d", k, *v.VarNameArgPosition))
			} else {
				av = append(av, k+"="+v.VarName)
			}
		}
		sort.Strings(av)
		defaultCfgSpec = strings.Join(av, ",")
	})
	return defaultCfgSpec
}
func cfgOrDefault(s string) string {
	if s == "" {
		return DefaultCfgSpec()
	}
	return s
}

func cfgOf(spec string) parser.CommandConfig {
	cfg := parser.CommandConfig{AutoVarCommands: map[string]parser.AutoVarCommand{}}
	for _, kv := range strings.Split(spec, ",") {
		p := strings.SplitN(kv, "=", 2)
		if len(p) != 2 {
			continue
		}
		if strings.HasPrefix(p[1], "#") {
			var n int
			fmt.Sscan(p[1][1:], &n)
			cfg.AutoVarCommands[p[0]] = parser.AutoVarCommand{VarNameArgPosition: &n}
		} else {
			cfg.AutoVarCommands[p[0]] = parser.AutoVarCommand{VarName: p[1]}
		}
	}
	return cfg
}

// FontSpecOf renders a font config as "default|name:max:lines:cursor:hexkey=w;...|..." ('|' separated,
// first element the default font id).
func FontSpecOf(fc parser.FontConfig) string {
	var fl []string
	var names []string
	for name := range fc.Fonts {
		names = append(names, name)
	}
	sort.Strings(names)
	for _, name := range names {
		f := fc.Fonts[name]
		var ws []string
		for k, v := range f.Widths {
			ws = append(ws, Hex(k)+"="+fmt.Sprint(v))
		}
		sort.Strings(ws)
		fl = append(fl, fmt.Sprintf("%s:%d:%d:%d:%s", name, f.MaxLineLength, f.NumLines, f.CursorOverlapWidth, strings.Join(ws, ";")))
	}
	return fc.DefaultFontID + "|" + strings.Join(fl, "|")
}

func fontCfgOfSpec(spec string) parser.FontConfig {
	parts := strings.Split(spec, "|")
	fc := parser.FontConfig{DefaultFontID: parts[0], Fonts: map[string]parser.Fonts{}}
	for _, fs := range parts[1:] {
		p := strings.Split(fs, ":")
		if len(p) != 5 {
			continue
		}
		var maxl, nl, cu int
		fmt.Sscan(p[1], &maxl)
		fmt.Sscan(p[2], &nl)
		fmt.Sscan(p[3], &cu)
		w := map[string]int{}
		for _, kv := range strings.Split(p[4], ";") {
			q := strings.SplitN(kv, "=", 2)
			if len(q) == 2 {
				var v int
				fmt.Sscan(q[1], &v)
				w[Unhex(q[0])] = v
			}
		}
		fc.Fonts[p[0]] = parser.Fonts{Widths: w, MaxLineLength: maxl, NumLines: nl, CursorOverlapWidth: cu}
	}
	return fc
}

var repoFontSpec string
var repoFontOnce sync.Once

// RepoFontSpec is the repository's font_config.json as a spec.
func RepoFontSpec() string {
	repoFontOnce.Do(func() {
		fc, _ := parser.LoadFontConfig(RepoDir + "/font_config.json")
		repoFontSpec = FontSpecOf(fc)
	})
	return repoFontSpec
}

var fontFiles = map[string]string{}
var fontMu sync.Mutex

func fontPath(spec string) string {
	if spec == "" {
		return RepoDir + "/font_config.json"
	}
	fontMu.Lock()
	defer fontMu.Unlock()
	if p, ok := fontFiles[spec]; ok {
		return p
	}
	fc := fontCfgOfSpec(spec)
	type jf struct {
		Widths             map[string]int `json:"widths"`
		CursorOverlapWidth int            `json:"cursorOverlapWidth"`
		MaxLineLength      int            `json:"maxLineLength"`
		NumLines           int            `json:"numLines"`
	}
	type jc struct {
		DefaultFontID string        `json:"defaultFontId"`
		Fonts         map[string]jf `json:"fonts"`
	}
	j := jc{DefaultFontID: fc.DefaultFontID, Fonts: map[string]jf{}}
	for k, f := range fc.Fonts {
		j.Fonts[k] = jf{f.Widths, f.CursorOverlapWidth, f.MaxLineLength, f.NumLines}
	}
	b, _ := json.Marshal(j)
	f, err := ioutil.TempFile("", "poryfont*.json")
	if err != nil {
		return ""
	}
	f.Write(b)
	f.Close()
	fontFiles[spec] = f.Name()
	return f.Name()
}

// CleanupFonts removes the temporary font files.
func CleanupFonts() {
	for _, p := range fontFiles {
		os.Remove(p)
	}
}

// Watchdog per case.
var Watchdog = 3 * time.Second

// Aborted is set when a case hung or allocated without bound: its goroutine cannot be stopped, so no further case is
// executed in this process (the case file ends there; the hang itself is reported by the checks).
var Aborted bool

func guarded(f func() string) string {
	done := make(chan string, 1)
	go func() {
		res := "PANIC\t"
		defer func() {
			if r := recover(); r != nil {
				done <- "PANIC\t" + Hex(fmt.Sprint(r))
			}
		}()
		res = f()
		done <- res
	}()
	deadline := time.After(Watchdog)
	tick := time.NewTicker(20 * time.Millisecond)
	defer tick.Stop()
	var ms runtime.MemStats
	for {
		select {
		case r := <-done:
			return r
		case <-deadline:
			Aborted = true
			return "HANG\t"
		case <-tick.C:
			runtime.ReadMemStats(&ms)
			if ms.HeapAlloc > 3<<30 {
				Aborted = true
				return "HANG\t"
			}
		}
	}
}

func errFields(e error) string {
	if pe, ok := e.(parser.ParseError); ok {
		return fmt.Sprintf("ERR\t%d|%d|%d|%d|%d|%d", pe.LineNumberStart, pe.LineNumberEnd, pe.CharStart, pe.Utf8CharStart, pe.CharEnd, pe.Utf8CharEnd)
	}
	return "EMITERR\t" + Hex(e.Error())
}

func runCompile(f []string) string {
	opt, lint := f[0] == "1", f[1] == "1"
	sw := parseSw(f[2])
	lmOn := strings.HasPrefix(f[3], "1:")
	lmpath := Unhex(strings.TrimPrefix(strings.TrimPrefix(f[3], "1:"), "0:"))
	cfg := cfgOf(f[4])
	fpath := fontPath(f[5])
	clifont := f[6]
	var climax int
	fmt.Sscan(f[7], &climax)
	src := Unhex(f[9])
	return guarded(func() string {
		var p *parser.Parser
		if lint {
			p = parser.NewLintParser(lexer.New(src), cfg)
		} else {
			p = parser.New(lexer.New(src), cfg, fpath, clifont, climax, sw)
		}
		prog, e := p.ParseProgram()
		if e != nil {
			return errFields(e)
		}
		o, e := emitter.New(prog, opt, lmOn, lmpath).Emit()
		if e != nil {
			return errFields(e)
		}
		return "OK\t" + Hex(o)
	})
}

// CheckLintAccepts: the lint parser (same command config, no switches, no fonts) accepts every source the normal parser
// accepts (C18). Only the parsers are run: lint mode is a mode of the parser.
func CheckLintAccepts(f []string) string {
	sw := parseSw(f[2])
	cfg := cfgOf(f[4])
	fpath := fontPath(f[5])
	clifont := f[6]
	var climax int
	fmt.Sscan(f[7], &climax)
	src := Unhex(f[9])
	msg := guarded(func() string {
		if _, e := parser.New(lexer.New(src), cfg, fpath, clifont, climax, sw).ParseProgram(); e != nil {
			return ""
		}
		if _, e := parser.NewLintParser(lexer.New(src), cfg).ParseProgram(); e != nil {
			return fmt.Sprintf("the normal parser accepts this source (switches %s) but the lint parser rejects it: %s: %q", f[2], e.Error(), src)
		}
		return ""
	})
	if strings.HasPrefix(msg, "PANIC\t") || strings.HasPrefix(msg, "HANG\t") {
		return "" // reported by the crash oracle on the same input
	}
	return msg
}

func runLex(f []string) string {
	src := Unhex(f[0])
	return guarded(func() string {
		var toks []string
		l := lexer.New(src)
		for i := 0; i < len(src)+3; i++ {
			t := l.NextToken()
			toks = append(toks, fmt.Sprintf("%s|%s|%d|%d|%d|%d|%d|%d", t.Type, Hex(t.Literal), t.LineNumber, t.StartCharIndex, t.StartUtf8CharIndex, t.EndLineNumber, t.EndCharIndex, t.EndUtf8CharIndex))
		}
		for len(toks) > 1 && toks[len(toks)-1] == toks[len(toks)-2] {
			toks = toks[:len(toks)-1]
		}
		return strings.Join(toks, ";")
	})
}

func runFmt(f []string) string {
	// fields: fontspec(widths of font "f": hexkey=w;...) maxw cursor fontid numlines hextext
	w := map[string]int{}
	for _, kv := range strings.Split(f[0], ";") {
		q := strings.SplitN(kv, "=", 2)
		if len(q) == 2 {
			var v int
			fmt.Sscan(q[1], &v)
			w[Unhex(q[0])] = v
		}
	}
	var maxw, cursor, nl int
	fmt.Sscan(f[1], &maxw)
	fmt.Sscan(f[2], &cursor)
	fmt.Sscan(f[4], &nl)
	fc := parser.FontConfig{DefaultFontID: "f", Fonts: map[string]parser.Fonts{"f": {Widths: w, MaxLineLength: maxw, NumLines: nl, CursorOverlapWidth: cursor}}}
	return guarded(func() string {
		out, err := fc.FormatText(Unhex(f[5]), maxw, cursor, f[3], nl)
		if err != nil {
			return "ERR"
		}
		return "OK:" + Hex(out)
	})
}

func runMeta(f []string) string {
	// fields: sw hexa hexb ; both compiled with optimize on, no markers, repo configs
	one := func(hexsrc string) string {
		r := runCompile([]string{"1", "0", f[0], "0:", DefaultCfgSpec(), "", "", "0", "", hexsrc})
		p := strings.SplitN(r, "\t", 2)
		switch p[0] {
		case "OK":
			return "OK:" + p[1]
		case "ERR":
			return "ERR"
		}
		return p[0]
	}
	return one(f[1]) + "\t" + one(f[2])
}

// Run executes a case and returns the result fields.
func Run(c Case) string {
	switch c.Kind {
	case "CASE":
		return runCompile(c.Fields)
	case "LEX":
		return runLex(c.Fields)
	case "LEXPAIR":
		return runLex(c.Fields[0:1]) + "\t" + runLex(c.Fields[1:2])
	case "FMT":
		return runFmt(c.Fields)
	case "META":
		return runMeta(c.Fields)
	}
	return ""
}

// ClassLine classifies every non-ASCII rune occurring in the cases with Go's unicode tables.
func ClassLine(cases []Case) string {
	seen := map[rune]bool{}
	var ls, ds, ss []string
	add := func(s string) {
		for _, c := range s {
			if c >= 128 && !seen[c] {
				seen[c] = true
				if unicode.IsLetter(c) {
					ls = append(ls, fmt.Sprint(int(c)))
				}
				if unicode.IsDigit(c) {
					ds = append(ds, fmt.Sprint(int(c)))
				}
				if unicode.IsSpace(c) {
					ss = append(ss, fmt.Sprint(int(c)))
				}
			}
		}
	}
	for _, c := range cases {
		switch c.Kind {
		case "CASE":
			add(Unhex(c.Fields[9]))
		case "LEX":
			add(Unhex(c.Fields[0]))
		case "LEXPAIR":
			add(Unhex(c.Fields[0]))
			add(Unhex(c.Fields[1]))
		case "META":
			add(Unhex(c.Fields[1]))
			add(Unhex(c.Fields[2]))
		}
	}
	return fmt.Sprintf("CLASS\t%s\t%s\t%s", strings.Join(ls, ","), strings.Join(ds, ","), strings.Join(ss, ","))
}

// WriteAll executes all cases (in order, in this one process) and prints the case file.
func WriteAll(w *os.File, cases []Case) {
	fmt.Fprintln(w, ClassLine(cases))
	fmt.Fprintf(w, "FONTCFG\t%s\n", RepoFontSpec())
	oracles := ""
	var pending []Case // expectations about the next case, computed by the generator independently of the implementation
	for _, c := range cases {
		if _, ok := NIn[c.Kind]; !ok {
			if c.Kind == "ORACLE" {
				oracles = strings.Join(c.Fields, ",")
			}
			if c.Kind == "EXPECTLINES" || c.Kind == "EXPECTFMT" || c.Kind == "EXPECTSAME" || c.Kind == "EXPECTMOVES" || c.Kind == "EXPECTMARK" {
				pending = append(pending, c)
				continue
			}
			fmt.Fprintln(w, c.Kind+"\t"+strings.Join(c.Fields, "\t"))
			continue
		}
		if Aborted {
			break
		}
		res := Run(c)
		fmt.Fprintln(w, c.Kind+"\t"+strings.Join(c.Fields, "\t")+"\t"+res)
		for _, x := range pending {
			if msg := CheckExpectation(x, res, c); msg != "" {
				fmt.Fprintln(w, "GOFAIL\t"+strings.ToLower(x.Kind)+"\t"+strings.ReplaceAll(msg, "\t", " "))
			}
		}
		pending = nil
		if c.Kind == "CASE" && strings.Contains(oracles, "lintacc") && c.Fields[1] == "0" {
			if msg := CheckLintAccepts(c.Fields); msg != "" {
				fmt.Fprintln(w, "GOFAIL\tlintacc\t"+strings.ReplaceAll(msg, "\t", " "))
			}
		}
		if c.Kind == "FMT" && strings.Contains(oracles, "fmt") {
			if msg := CheckFmt(c.Fields, res); msg != "" {
				fmt.Fprintln(w, "GOFAIL\tfmt\t"+strings.ReplaceAll(msg, "\t", " "))
			}
		}
	}
	CleanupFonts()
}

// ReadInputs parses a case file (with or without results) back into inputs.
func ReadInputs(path string) ([]Case, error) {
	b, err := ioutil.ReadFile(path)
	if err != nil {
		return nil, err
	}
	var out []Case
	for _, line := range strings.Split(string(b), "\n") {
		if line == "" {
			continue
		}
		f := strings.Split(line, "\t")
		if f[0] == "CLASS" || f[0] == "FONTCFG" {
			continue
		}
		if n, ok := NIn[f[0]]; ok {
			if len(f) < 1+n {
				continue
			}
			out = append(out, Case{f[0], f[1 : 1+n]})
		} else {
			out = append(out, Case{f[0], f[1:]})
		}
	}
	return out, nil
}

// outputLines splits an OK result into its lines.
func outputLines(res string) ([]string, bool) {
	p := strings.SplitN(res, "\t", 2)
	if p[0] != "OK" || len(p) < 2 {
		return nil, false
	}
	return strings.Split(Unhex(p[1]), "\n"), true
}

// CheckExpectation evaluates a generator-side expectation on the implementation's result.
//   EXPECTLINES hex(lines):  the command lines of the output (tab lines, a final generated return aside) are exactly these
//   EXPECTFMT label widths maxW cursor font numLines: the text emitted under label is a correct layout for these parameters
func CheckExpectation(x Case, res string, c Case) string {
	lines, ok := outputLines(res)
	switch x.Kind {
	case "EXPECTSAME":
		// EXPECTSAME label hex(src2): the block emitted under label (up to the next blank line) is the block emitted under the
		// same label when src2 - the same statement without its unrelated neighbours - is compiled with the same options
		if !ok || c.Kind != "CASE" {
			return ""
		}
		c2 := Case{c.Kind, append([]string{}, c.Fields...)}
		c2.Fields[9] = x.Fields[1]
		lines2, ok2 := outputLines(Run(c2))
		if !ok2 {
			return ""
		}
		block := func(ls []string) []string {
			var out []string
			in := false
			for _, l := range ls {
				if l == x.Fields[0]+":" || l == x.Fields[0]+"::" {
					in = true
				} else if in && l == "" {
					break
				}
				if in {
					out = append(out, l)
				}
			}
			return out
		}
		a, b := block(lines), block(lines2)
		if len(b) > 0 && strings.Join(a, "\n") != strings.Join(b, "\n") {
			return fmt.Sprintf("the code emitted for %s depends on unrelated statements: among them %q, on its own %q", x.Fields[0], a, b)
		}
	case "EXPECTLINES":
		if !ok {
			return "the program is not accepted: " + strings.SplitN(res, "\t", 2)[0]
		}
		want := strings.Split(Unhex(x.Fields[0]), "\n")
		var got []string
		for _, l := range lines {
			if strings.HasPrefix(l, "\t") {
				got = append(got, l[1:])
			}
		}
		if len(got) > 0 && got[len(got)-1] == "return" && (len(want) == 0 || len(got) == len(want)+1) {
			got = got[:len(got)-1]
		}
		if strings.Join(got, "\n") != strings.Join(want, "\n") {
			return fmt.Sprintf("commands do not pass through verbatim and in order: emitted %q, written %q", got, want)
		}
	case "EXPECTMOVES":
		// EXPECTMOVES cmd hex(steps of the 1st moves();steps of the 2nd;...): the k-th line "cmd ..., <label>" of the output refers
		// to a label whose block is exactly the k-th step list (one step per line) followed by step_end
		if !ok {
			return "the program is not accepted: " + strings.SplitN(res, "\t", 2)[0]
		}
		want := strings.Split(Unhex(x.Fields[1]), ";")
		k := 0
		for _, l := range lines {
			if !strings.HasPrefix(l, "\t"+x.Fields[0]+" ") {
				continue
			}
			if k >= len(want) {
				return fmt.Sprintf("more %s lines than written", x.Fields[0])
			}
			label := strings.TrimSpace(l[strings.LastIndex(l, ",")+1:])
			var got []string
			in, found := false, 0
			for _, m := range lines {
				if m == label+":" || m == label+"::" {
					in = true
					found++
					continue
				}
				if in {
					if strings.HasPrefix(m, "\t") {
						got = append(got, m[1:])
					} else if !strings.HasPrefix(m, "# ") {
						in = false
					}
				}
			}
			exp := append(strings.Fields(want[k]), "step_end")
			if found != 1 {
				return fmt.Sprintf("movement label %s is defined %d times", label, found)
			}
			if strings.Join(got, " ") != strings.Join(exp, " ") {
				return fmt.Sprintf("moves() number %d was written as %q but its label %s holds %q", k+1, strings.Join(exp, " "), label, strings.Join(got, " "))
			}
			k++
		}
		if k != len(want) {
			return fmt.Sprintf("%d %s lines emitted, %d written", k, x.Fields[0], len(want))
		}
	case "EXPECTMARK":
		// EXPECTMARK hex(line<TAB>prefix\n...): the output line that starts with prefix is directly preceded by a marker naming line
		if !ok {
			return ""
		}
		for _, e := range strings.Split(Unhex(x.Fields[0]), "\n") {
			f := strings.SplitN(e, "\t", 2)
			if len(f) != 2 {
				continue
			}
			seen := false
			for i, l := range lines {
				if strings.HasPrefix(l, f[1]) {
					seen = true
					if i == 0 || !strings.HasPrefix(lines[i-1], "# "+f[0]+" \"") {
						prev := ""
						if i > 0 {
							prev = lines[i-1]
						}
						return fmt.Sprintf("%q was written on line %s but is preceded by %q", strings.TrimSpace(f[1]), f[0], prev)
					}
					break
				}
			}
			if !seen {
				return fmt.Sprintf("no output line starts with %q", f[1])
			}
		}
	case "EXPECTFMT":
		if !ok {
			return ""
		}
		label := x.Fields[0]
		var parts []string
		in := false
		for _, l := range lines {
			if l == label+":" || l == label+"::" {
				in = true
				continue
			}
			if in {
				if strings.HasPrefix(l, "\t.") {
					q := l[strings.Index(l, "\"")+1:]
					if strings.HasSuffix(q, "\"") {
						q = q[:len(q)-1]
					}
					parts = append(parts, q)
				} else if !strings.HasPrefix(l, "# ") {
					break
				}
			}
		}
		if !in {
			return "formatted text label " + label + " is not defined"
		}
		txt := strings.Join(parts, "\n")
		txt = strings.TrimSuffix(strings.TrimSuffix(txt, "$"), "\\0")
		f := []string{x.Fields[1], x.Fields[2], x.Fields[3], "f", x.Fields[5], x.Fields[6]}
		if msg := CheckFmt(f, "OK:"+Hex(txt)); msg != "" {
			return fmt.Sprintf("format() with maxLineLength=%s cursorOverlapWidth=%s numLines=%s (font %s): %s; emitted %q", x.Fields[2], x.Fields[3], x.Fields[5], x.Fields[4], msg, txt)
		}
	}
	return ""
}
