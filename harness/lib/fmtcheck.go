package lib

import (
	"fmt"
	"strings"
)

// CheckFmt is the direct oracle of C07: it recomputes, independently of the implementation (own tokenizer and width
// function), whether a FormatText result keeps all words and explicit breaks in order, fits every line with at least two
// words into maxW (with the cursor reserve on the lines where the prompt is shown), breaks greedily and follows the
// \n / \l / \p discipline. Returns a failure message or "".
func CheckFmt(f []string, result string) string {
	if f[3] != "f" || !strings.HasPrefix(result, "OK:") {
		return ""
	}
	fn := &fnt{w: map[string]int{}}
	for _, kv := range strings.Split(f[0], ";") {
		q := strings.SplitN(kv, "=", 2)
		if len(q) == 2 {
			var v int
			fmt.Sscan(q[1], &v)
			k := Unhex(q[0])
			if k == "default" {
				fn.hasDef, fn.def = true, v
			} else {
				fn.w[k] = v
			}
		}
	}
	var maxW, cursor, numLines int
	fmt.Sscan(f[1], &maxW)
	fmt.Sscan(f[2], &cursor)
	fmt.Sscan(f[4], &numLines)
	text := Unhex(f[5])
	if strings.Contains(text, "\\\\") {
		return ""
	}
	out := Unhex(result[3:])
	toks := FmtTokenize(text)
	lines := strings.Split(out, "\n")
	type oline struct {
		words []string
		code  string
	}
	var ol []oline
	for i, l := range lines {
		code := ""
		if i < len(lines)-1 {
			if len(l) < 2 {
				return "a produced line does not end with a break code"
			}
			code = l[len(l)-2:]
			l = l[:len(l)-2]
		}
		var ws []string
		for _, t := range FmtTokenize(l) {
			ws = append(ws, t.S)
		}
		ol = append(ol, oline{ws, code})
	}
	if len(toks) == 0 {
		if out != "" {
			return "output for an empty text"
		}
		return ""
	}
	ti := 0
	lineIdx := 0
	for li, l := range ol {
		lw := 0
		for wi, w := range l.words {
			if ti >= len(toks) || toks[ti].Brk || toks[ti].S != w {
				return fmt.Sprintf("words are not kept in order: output word %q does not match the input", w)
			}
			if wi > 0 {
				lw += fn.get(" ")
			}
			lw += fn.width(w)
			ti++
		}
		last := li == len(ol)-1
		explicit := ti < len(toks) && toks[ti].Brk
		reserve := 0
		more := ti < len(toks)
		nextIsP := explicit && toks[ti].S == "\\p"
		if more && (lineIdx >= numLines-1 || nextIsP) {
			reserve = cursor
		}
		if len(l.words) >= 2 && lw+reserve > maxW {
			return fmt.Sprintf("line %d (%q) is %d pixels wide plus %d cursor reserve, more than maxLineLength %d", li+1, strings.Join(l.words, " "), lw, reserve, maxW)
		}
		if last {
			if l.code != "" || ti != len(toks) {
				return "the end of the text is lost or a trailing break code was added"
			}
			break
		}
		if explicit {
			want := toks[ti].S
			if want == "\\N" {
				if lineIdx < numLines-1 {
					want = "\\n"
				} else {
					want = "\\l"
				}
			}
			if l.code != want {
				return fmt.Sprintf("explicit break %s of the input appears as %s on line %d", toks[ti].S, l.code, li+1)
			}
			if toks[ti].S == "\\p" {
				lineIdx = 0
			} else {
				lineIdx++
			}
			ti++
		} else {
			want := "\\n"
			if lineIdx >= numLines-1 {
				want = "\\l"
			}
			if l.code != want {
				return fmt.Sprintf("inserted break on line %d is %s, the text-box discipline wants %s", li+1, l.code, want)
			}
			if ti < len(toks) && !toks[ti].Brk && len(l.words) > 0 {
				nw := lw + fn.get(" ") + fn.width(toks[ti].S)
				res := 0
				moreAfter := ti+1 < len(toks)
				if moreAfter && (lineIdx >= numLines-1 || toks[ti+1].S == "\\p") {
					res = cursor
				}
				if nw+res <= maxW {
					return fmt.Sprintf("word %q was moved to a new line although it fits on line %d", toks[ti].S, li+1)
				}
			} else {
				return fmt.Sprintf("a break was inserted on line %d that no word forced", li+1)
			}
			lineIdx++
		}
	}
	return ""
}
