package lib

import (
	"fmt"
	"strconv"
	"strings"
)

// ---------- generator AST for script bodies ----------
type Leaf struct {
	Kind   string // flag var defeated autovar
	Opnd   string
	Op     string // "" (truthy), "==", "!=", "<", ...
	Val    string
	Neg    bool // !leaf (only with op == "")
	Strict bool
	Pre    []string // autovar command tokens e.g. checkitem ( ITEM_1 )
}
type Bexp struct {
	L     *Leaf
	Op    string // "&&" "||" "id"
	A, B  *Bexp
	Paren bool
	Not   bool
}
type SCase struct {
	Mark bool // offending token marker (violation injection)
	Def  bool
	Val  string
	Body []*Stmt
}
type Stmt struct {
	Kind    string // cmd label if while dowhile break continue switch goto text moves pory
	Name    string
	Args    []string // argument lexemes (with commas) for cmd
	Scope   string   // label scope: "", "global", "local"
	Conds   []*Bexp
	Bodies  [][]*Stmt
	Els     []*Stmt
	HasEls  bool
	Cond    *Bexp
	Body    []*Stmt
	Operand []string // switch operand lexemes: var ( V ) or autovar command
	Cases   []*SCase
	// poryswitch
	SwName  string
	PCases  []*PCase
}
type PCase struct {
	Label string
	Brace bool
	Body  []*Stmt
}

type ScriptGen struct {
	R        *Rng
	NCmd     int
	NLabel   int
	Labels   []string
	MaxDepth int
	MaxLen   int
	Prefix   string // prefix of generated command / label names (keeps scripts of one program distinct)
	UseSwitch, UseGoto, UseAuto, UseCompound, AfterBreak, UseArgs, UseText, UsePory, UseScope, AutoText bool
	Sw       map[string]string
	Texts    []string // pool of inline text contents
}

func NewScriptGen(r *Rng) *ScriptGen {
	return &ScriptGen{R: r, MaxDepth: 3, MaxLen: 5, UseSwitch: true, UseGoto: true, UseAuto: true, UseCompound: true, AfterBreak: true,
		Sw: map[string]string{"V": "A", "W": "B"}, Texts: []string{"Hello", "Bye$", "A longer text", ""}}
}

func (g *ScriptGen) leaf() *Leaf {
	l := &Leaf{}
	k := g.R.N(10)
	switch {
	case k < 4:
		l.Kind = "flag"
		l.Opnd = fmt.Sprintf("FLAG_%d", g.R.N(4))
		switch g.R.N(5) {
		case 0:
			l.Op, l.Val = "==", []string{"TRUE", "true", "FALSE", "false"}[g.R.N(4)]
		case 1:
			l.Op, l.Val = "!=", []string{"TRUE", "FALSE"}[g.R.N(2)]
		case 2:
			l.Neg = true
		}
	case k < 7:
		l.Kind = "var"
		l.Opnd = fmt.Sprintf("VAR_%d", g.R.N(4))
		switch g.R.N(4) {
		case 0:
			l.Neg = true
		case 1:
		default:
			l.Op = []string{"==", "!=", "<", "<=", ">", ">="}[g.R.N(6)]
			l.Val = strconv.Itoa(g.R.N(3))
			if g.R.P(20) {
				l.Strict = true
			}
		}
	case k < 9 || !g.UseAuto:
		l.Kind = "defeated"
		l.Opnd = fmt.Sprintf("TRAINER_%d", g.R.N(3))
		switch g.R.N(4) {
		case 0:
			l.Op, l.Val = "==", []string{"TRUE", "FALSE"}[g.R.N(2)]
		case 1:
			l.Neg = true
		}
	default:
		l.Kind = "autovar"
		k3 := g.R.N(3)
		if g.AutoText && g.R.P(50) {
			k3 = 3
		}
		switch k3 {
		case 3:
			l.Pre = []string{"checkitem", "(", g.textLit(), ",", "1", ")"}
		case 0:
			l.Pre = []string{"checkitem", "(", fmt.Sprintf("ITEM_%d", g.R.N(3)), ")"}
		case 1:
			l.Pre = []string{"specialvar", "(", fmt.Sprintf("VAR_T%d", g.R.N(2)), ",", "GetThing", ")"}
		default:
			l.Pre = []string{"random", "(", strconv.Itoa(2 + g.R.N(3)), ")"}
		}
		switch g.R.N(3) {
		case 0:
			l.Neg = true
		case 1:
		default:
			l.Op = []string{"==", "!=", "<", ">="}[g.R.N(4)]
			l.Val = strconv.Itoa(g.R.N(3))
		}
	}
	return l
}

func (g *ScriptGen) bexp(n int) *Bexp {
	if n <= 1 || !g.UseCompound {
		e := &Bexp{L: g.leaf()}
		if g.UseCompound && g.R.P(10) {
			e = &Bexp{A: e, Paren: true, Op: "id", Not: g.R.P(40)}
		}
		return e
	}
	k := 1 + g.R.N(n-1)
	e := &Bexp{Op: []string{"&&", "||"}[g.R.N(2)], A: g.bexp(k), B: g.bexp(n - k)}
	if g.R.P(25) {
		e = &Bexp{A: e, Paren: true, Op: "id", Not: g.R.P(50)}
	}
	return e
}

func (g *ScriptGen) Cond() *Bexp {
	n := 1
	if g.UseCompound {
		n = 1 + g.R.N(4)
		if g.R.P(5) {
			n = 5 + g.R.N(4)
		}
	}
	return g.bexp(n)
}

func (g *ScriptGen) Block(depth int, inLoop, inBrk bool, maxLen int) []*Stmt {
	n := g.R.N(maxLen + 1)
	var out []*Stmt
	for i := 0; i < n; i++ {
		last := i == n-1
		st := g.stmt(depth, inLoop, inBrk, last)
		out = append(out, st)
		if st.Kind == "break" && !g.AfterBreak {
			break
		}
	}
	return out
}

func (g *ScriptGen) cmd() *Stmt {
	g.NCmd++
	s := &Stmt{Kind: "cmd", Name: fmt.Sprintf("%scmd%d", g.Prefix, g.NCmd)}
	if g.UseArgs && g.R.P(50) {
		s.Args = g.args()
	}
	return s
}

var argAtoms = []string{"VAR_1", "7", "0x1F", "-3", "FLAG_X", "LOCALID_NPC", "TRUE", "*", "+", "==", "if", "value", "1"}

func (g *ScriptGen) args() []string {
	var out []string
	n := 1 + g.R.N(3)
	for i := 0; i < n; i++ {
		if i > 0 {
			out = append(out, ",")
		}
		if g.UseText && g.R.P(25) {
			out = append(out, g.textLit())
			continue
		}
		m := 1 + g.R.N(2)
		for j := 0; j < m; j++ {
			a := argAtoms[g.R.N(len(argAtoms))]
			if j == 0 && g.R.P(10) {
				out = append(out, "(", a, ")")
			} else {
				out = append(out, a)
			}
		}
	}
	return out
}

func (g *ScriptGen) textLit() string {
	c := g.Texts[g.R.N(len(g.Texts))]
	ty := []string{"", "", "ascii", "braille", "custom"}[g.R.N(5)]
	return ty + "\"" + c + "\""
}

func (g *ScriptGen) stmt(depth int, inLoop, inBrk, last bool) *Stmt {
	k := g.R.N(100)
	if depth >= g.MaxDepth && k >= 40 {
		k = g.R.N(40)
	}
	switch {
	case k < 22:
		return g.cmd()
	case k < 25:
		if g.UseText {
			g.NCmd++
			return &Stmt{Kind: "cmd", Name: "msgbox", Args: []string{g.textLit(), ",", "MSGBOX_DEFAULT"}}
		}
		return g.cmd()
	case k < 30:
		g.NLabel++
		nm := fmt.Sprintf("%sLbl%d", g.Prefix, g.NLabel)
		g.Labels = append(g.Labels, nm)
		s := &Stmt{Kind: "label", Name: nm}
		if g.UseScope && g.R.P(40) {
			s.Scope = []string{"global", "local"}[g.R.N(2)]
		}
		return s
	case k < 33:
		return &Stmt{Kind: "cmd", Name: []string{"end", "return"}[g.R.N(2)]}
	case k < 37:
		if inBrk {
			return &Stmt{Kind: "break"}
		}
		return g.cmd()
	case k < 40:
		if inLoop && last {
			return &Stmt{Kind: "continue"}
		}
		if g.UseGoto {
			return &Stmt{Kind: "goto"}
		}
		return g.cmd()
	case k < 60:
		s := &Stmt{Kind: "if"}
		nb := 1 + g.R.N(3)
		if g.R.P(60) {
			nb = 1
		}
		for i := 0; i < nb; i++ {
			s.Conds = append(s.Conds, g.Cond())
			s.Bodies = append(s.Bodies, g.Block(depth+1, inLoop, inBrk, 3))
		}
		if g.R.P(40) {
			s.HasEls = true
			s.Els = g.Block(depth+1, inLoop, inBrk, 3)
		}
		return s
	case k < 73:
		s := &Stmt{Kind: "while"}
		if !g.R.P(20) {
			s.Cond = g.Cond()
		}
		s.Body = g.Block(depth+1, true, true, 3)
		return s
	case k < 82:
		s := &Stmt{Kind: "dowhile", Cond: g.Cond()}
		s.Body = g.Block(depth+1, true, true, 3)
		return s
	case k < 87 && g.UsePory:
		s := &Stmt{Kind: "pory", SwName: []string{"V", "W"}[g.R.N(2)]}
		labels := []string{"A", "B", "C"}
		nc := 1 + g.R.N(3)
		hasDef := g.R.P(70)
		val := g.Sw[s.SwName]
		matched := false
		for i := 0; i < nc; i++ {
			if labels[i] == val {
				matched = true
			}
		}
		if !matched {
			hasDef = true
		}
		defAt := g.R.N(nc + 1)
		mk := func(label string) {
			pc := &PCase{Label: label, Brace: g.R.P(50)}
			if pc.Brace {
				// a continue inside a poryswitch case is only accepted as last statement of that case
				pc.Body = g.Block(depth+1, false, inBrk, 2)
			} else {
				pc.Body = []*Stmt{g.stmt(depth+1, false, inBrk, false)}
			}
			s.PCases = append(s.PCases, pc)
		}
		for i := 0; i <= nc; i++ {
			if hasDef && i == defAt {
				mk("_")
			}
			if i < nc {
				mk(labels[i])
			}
		}
		return s
	default:
		if !g.UseSwitch {
			return g.cmd()
		}
		s := &Stmt{Kind: "switch", Operand: []string{"var", "(", fmt.Sprintf("VAR_%d", g.R.N(3)), ")"}}
		if g.UseAuto && g.R.P(15) {
			s.Operand = []string{"random", "(", "4", ")"}
		}
		nc := 1 + g.R.N(4)
		defAt := -1
		if g.R.P(50) {
			defAt = g.R.N(nc + 1)
		}
		vals := g.R.N(3)
		for i := 0; i <= nc; i++ {
			if i == defAt {
				c := &SCase{Def: true}
				if g.R.P(65) {
					c.Body = g.Block(depth+1, false, true, 2)
				}
				s.Cases = append(s.Cases, c)
			}
			if i < nc {
				c := &SCase{Val: strconv.Itoa(vals)}
				vals++
				if g.R.P(65) {
					c.Body = g.Block(depth+1, false, true, 2)
				}
				s.Cases = append(s.Cases, c)
			}
		}
		return s
	}
}

// FixGotos gives every goto a target: mostly an existing label, sometimes an external one.
func (g *ScriptGen) FixGotos(ss []*Stmt) {
	for _, s := range ss {
		if s.Kind == "goto" {
			if len(g.Labels) > 0 && !g.R.P(10) {
				s.Name = g.Labels[g.R.N(len(g.Labels))]
			} else {
				s.Name = "External_Label"
			}
		}
		for _, b := range s.Bodies {
			g.FixGotos(b)
		}
		g.FixGotos(s.Els)
		g.FixGotos(s.Body)
		for _, c := range s.Cases {
			g.FixGotos(c.Body)
		}
		for _, c := range s.PCases {
			g.FixGotos(c.Body)
		}
	}
}

// ---------- printer to lexemes ----------
func (l *Leaf) Toks() Toks {
	var t Toks
	if l.Neg {
		t = append(t, "!")
	}
	if l.Kind == "autovar" {
		t = append(t, l.Pre...)
	} else {
		t = append(t, l.Kind, "(", l.Opnd, ")")
	}
	if l.Op != "" {
		t = append(t, l.Op)
		if l.Strict {
			t = append(t, "value", "(", l.Val, ")")
		} else {
			t = append(t, l.Val)
		}
	}
	return t
}
func (e *Bexp) Toks() Toks {
	if e.L != nil {
		return e.L.Toks()
	}
	if e.Op == "id" {
		var t Toks
		if e.Not {
			t = append(t, "!")
		}
		t = append(t, "(")
		t = append(t, e.A.Toks()...)
		return append(t, ")")
	}
	pa, pb := e.A.Toks(), e.B.Toks()
	wrap := func(x Toks) Toks { return append(append(Toks{"("}, x...), ")") }
	if e.Op == "&&" {
		if e.A.L == nil && e.A.Op == "||" {
			pa = wrap(pa)
		}
		if e.B.L == nil && e.B.Op == "||" {
			pb = wrap(pb)
		}
	}
	if e.Op == "||" && e.B.L == nil && e.B.Op == "||" {
		// keep the generated tree shape irrelevant: || is associative for value and order
	}
	return append(append(pa, e.Op), pb...)
}

func BlockToks(ss []*Stmt) Toks {
	var t Toks
	for _, s := range ss {
		switch s.Kind {
		case "cmd":
			t = append(t, s.Name)
			if len(s.Args) > 0 {
				t = append(t, "(")
				t = append(t, s.Args...)
				t = append(t, ")")
			}
		case "goto":
			t = append(t, "goto", "(", s.Name, ")")
		case "label":
			t = append(t, s.Name)
			if s.Scope != "" {
				t = append(t, "(", s.Scope, ")")
			}
			t = append(t, ":")
		case "break", "continue":
			t = append(t, s.Kind)
		case "viol":
			t = append(t, "\x01")
			t = append(t, s.Args...)
		case "if":
			for i, c := range s.Conds {
				if i == 0 {
					t = append(t, "if")
				} else {
					t = append(t, "elif")
				}
				t = append(t, "(")
				t = append(t, c.Toks()...)
				t = append(t, ")", "{")
				t = append(t, BlockToks(s.Bodies[i])...)
				t = append(t, "}")
			}
			if s.HasEls {
				t = append(t, "else", "{")
				t = append(t, BlockToks(s.Els)...)
				t = append(t, "}")
			}
		case "while":
			t = append(t, "while")
			if s.Cond != nil {
				t = append(t, "(")
				t = append(t, s.Cond.Toks()...)
				t = append(t, ")")
			}
			t = append(t, "{")
			t = append(t, BlockToks(s.Body)...)
			t = append(t, "}")
		case "dowhile":
			t = append(t, "do", "{")
			t = append(t, BlockToks(s.Body)...)
			t = append(t, "}", "while", "(")
			t = append(t, s.Cond.Toks()...)
			t = append(t, ")")
		case "switch":
			t = append(t, "switch", "(")
			t = append(t, s.Operand...)
			t = append(t, ")", "{")
			for _, c := range s.Cases {
				if c.Mark {
					t = append(t, "\x01")
				}
				if c.Def {
					t = append(t, "default", ":")
				} else {
					t = append(t, "case", c.Val, ":")
				}
				t = append(t, BlockToks(c.Body)...)
			}
			t = append(t, "}")
		case "pory":
			t = append(t, "poryswitch", "(", s.SwName, ")", "{")
			for _, c := range s.PCases {
				t = append(t, c.Label)
				if c.Brace {
					t = append(t, "{")
					t = append(t, BlockToks(c.Body)...)
					t = append(t, "}")
				} else {
					t = append(t, ":")
					t = append(t, BlockToks(c.Body)...)
				}
			}
			t = append(t, "}")
		}
	}
	return t
}

// SelectPory replaces every poryswitch statement by the statements of its selected case.
func SelectPory(ss []*Stmt, sw map[string]string) []*Stmt {
	var out []*Stmt
	for _, s := range ss {
		if s.Kind == "pory" {
			var sel []*Stmt
			found := false
			for _, c := range s.PCases {
				if c.Label == sw[s.SwName] {
					sel, found = c.Body, true
				}
			}
			if !found {
				for _, c := range s.PCases {
					if c.Label == "_" {
						sel = c.Body
					}
				}
			}
			out = append(out, SelectPory(sel, sw)...)
			continue
		}
		c := *s
		c.Bodies = nil
		for _, b := range s.Bodies {
			c.Bodies = append(c.Bodies, SelectPory(b, sw))
		}
		c.Els = SelectPory(s.Els, sw)
		c.Body = SelectPory(s.Body, sw)
		c.Cases = nil
		for _, k := range s.Cases {
			c.Cases = append(c.Cases, &SCase{Def: k.Def, Val: k.Val, Body: SelectPory(k.Body, sw)})
		}
		out = append(out, &c)
	}
	return out
}

// Script wraps a body.
func ScriptToks(name, scope string, body []*Stmt) Toks {
	t := Toks{"script"}
	if scope != "" {
		t = append(t, "(", scope, ")")
	}
	t = append(t, name, "{")
	t = append(t, BlockToks(body)...)
	return append(t, "}")
}

// ---------- exhaustive enumerators ----------

// EnumBexp: all boolean expressions with n leaves over &&, ||, and optional ( ) / !( ) wrappers.
func EnumBexp(n int, k *int, wrap bool) []string {
	var out []string
	if n == 1 {
		*k++
		id := *k
		for _, l := range []string{fmt.Sprintf("flag(F%d)", id), fmt.Sprintf("!flag(F%d)", id), fmt.Sprintf("var(V%d) < 2", id)} {
			out = append(out, l)
		}
		*k--
	}
	for a := 1; a < n; a++ {
		ka := *k
		ls := EnumBexp(a, &ka, true)
		kb := *k + a
		rs := EnumBexp(n-a, &kb, true)
		for _, l := range ls {
			for _, r := range rs {
				out = append(out, l+" && "+r, l+" || "+r)
			}
		}
	}
	if wrap {
		base := out
		for _, e := range base {
			out = append(out, "("+e+")", "!("+e+")")
		}
	}
	return out
}

// EnumBexpFlat: all expressions with n single-form leaves over && and || without any
// parentheses (operator strings), e.g. "flag(F1) && flag(F2) || flag(F3)".
func EnumBexpFlat(n int) []string {
	var out []string
	for mask := 0; mask < 1<<uint(n-1); mask++ {
		var sb strings.Builder
		for i := 0; i < n; i++ {
			if i > 0 {
				if mask>>uint(i-1)&1 == 1 {
					sb.WriteString(" && ")
				} else {
					sb.WriteString(" || ")
				}
			}
			fmt.Fprintf(&sb, "flag(F%d)", i+1)
		}
		out = append(out, sb.String())
	}
	return out
}

// EnumSwitch: all switch case lists with n entries: body in {empty, cmd, cmd+break}, default at any position or absent.
func EnumSwitch(n int) []string {
	var out []string
	bodies := []string{"", " c%d", " c%d break"}
	var rec func(i int, acc []string)
	rec = func(i int, acc []string) {
		if i == n {
			for d := -1; d <= n; d++ {
				for _, db := range []string{"", " dflt", " dflt break"} {
					if d == -1 && db != "" {
						continue
					}
					var sb strings.Builder
					sb.WriteString("switch (var(V)) {")
					for j := 0; j <= n; j++ {
						if j == d {
							sb.WriteString(" default:" + db)
						}
						if j < n {
							sb.WriteString(fmt.Sprintf(" case %d:", j) + acc[j])
						}
					}
					sb.WriteString(" }")
					if n > 0 || d >= 0 {
						out = append(out, sb.String())
					}
				}
			}
			return
		}
		for _, b := range bodies {
			x := b
			if strings.Contains(b, "%d") {
				x = fmt.Sprintf(b, i)
			}
			rec(i+1, append(append([]string{}, acc...), x))
		}
	}
	rec(0, nil)
	return out
}

// EnumSkeletons: all statement lists with exactly `size` statement nodes and nesting depth <= depth over
// {cmd, label, if, if-else, while, while{}, do-while, break, continue, end, goto}. Conditions are single flags.
// Returns source bodies (text). break/continue only where legal.
func EnumSkeletons(size, depth int) []string {
	type ctx struct{ loop, brk bool }
	var blocks func(size, depth int, c ctx, lastPos bool) []string
	var stmts func(size, depth int, c ctx, last bool) []string
	memo := map[string][]string{}
	stmts = func(size, depth int, c ctx, last bool) []string {
		var out []string
		if size == 1 {
			out = append(out, "c", "L:", "end", "goto(L)")
			if c.brk {
				out = append(out, "break")
			}
			if c.loop && last {
				out = append(out, "continue")
			}
		}
		if depth > 0 && size >= 1 {
			inner := size - 1
			for _, b := range blocks(inner, depth-1, c, true) {
				out = append(out, "if (flag(A)) {"+b+" }")
			}
			for a := 0; a <= inner; a++ {
				for _, b1 := range blocks(a, depth-1, c, true) {
					for _, b2 := range blocks(inner-a, depth-1, c, true) {
						out = append(out, "if (flag(A)) {"+b1+" } else {"+b2+" }")
					}
				}
			}
			lc := ctx{true, true}
			for _, b := range blocks(inner, depth-1, lc, true) {
				out = append(out, "while (flag(B)) {"+b+" }", "while {"+b+" }", "do {"+b+" } while (flag(C))")
			}
		}
		return out
	}
	blocks = func(size, depth int, c ctx, lastPos bool) []string {
		key := fmt.Sprint(size, depth, c, lastPos)
		if v, ok := memo[key]; ok {
			return v
		}
		var out []string
		if size == 0 {
			out = []string{""}
		} else {
			for first := 1; first <= size; first++ {
				rest := size - first
				for _, s := range stmts(first, depth, c, rest == 0) {
					for _, r := range blocks(rest, depth, c, true) {
						out = append(out, " "+s+r)
					}
				}
			}
		}
		memo[key] = out
		return out
	}
	return blocks(size, depth, ctx{}, true)
}
