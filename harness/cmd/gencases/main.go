// gencases: generates the case file of one property (inputs + the implementation's results), or
// re-executes the inputs of an existing case file (-rerun) against the current repository.
package main

import (
	"flag"
	"fmt"
	"os"
	"strconv"
	"strings"

	. "verifharness/lib"
)

var tier string
var seed uint64

func scale(quick, thorough int) int {
	if tier == "thorough" {
		return thorough
	}
	return quick
}

type out struct{ cases []Case }

func (o *out) dir(name string, f ...string) { o.cases = append(o.cases, Case{name, f}) }
func (o *out) add(c Case)                   { o.cases = append(o.cases, c) }

// both optimize settings
func (o *out) e2eBoth(src string, op Opts) {
	for _, opt := range []bool{false, true} {
		op.Opt = opt
		o.add(E2E(src, op))
	}
}

var defSw = map[string]string{"V": "A", "W": "B"}

// script wraps an enumerated body; the enumerator writes every label as "L:" - number them so that the labels of a
// script are distinct (a script that defines one label twice is the author's duplicate, outside every property)
func script(body string) string {
	n := strings.Count(body, "L:")
	for i := 1; i <= n; i++ {
		body = strings.Replace(body, "L:", fmt.Sprintf("L%d:", i), 1)
	}
	k := 0
	for strings.Contains(body, "goto(L)") {
		k++
		t := "External_Label"
		if n > 0 {
			t = fmt.Sprintf("L%d", 1+(k*7)%n)
		}
		body = strings.Replace(body, "goto(L)", "goto("+t+")", 1)
	}
	return "script S {\n" + body + "\n}\n"
}

func randomScripts(o *out, r *Rng, n int, conf func(g *ScriptGen), layout int) {
	for i := 0; i < n; i++ {
		g := NewScriptGen(r)
		conf(g)
		body := g.Block(0, false, false, g.MaxLen)
		g.FixGotos(body)
		toks := ScriptToks("S", "", body)
		var src string
		switch layout {
		case 1:
			src = toks.Layout(r, false)
		case 2:
			src = toks.LinePer(r)
		default:
			src = toks.Canon()
		}
		o.e2eBoth(src, Opts{Sw: g.Sw})
	}
}

func seeds(o *out, op Opts) {
	for _, s := range Seeds {
		o.e2eBoth(s, op)
		op2 := op
		op2.Sw = map[string]string{"V": "Z", "W": "Z"}
		o.e2eBoth(s, op2)
	}
}

func genC01(o *out, r *Rng) {
	o.dir("PROJ", "text")
	o.dir("ORACLE", "sem,validate,closed")
	seeds(o, Opts{Sw: defSw})
	for size := 1; size <= scale(3, 4); size++ {
		for _, b := range EnumSkeletons(size, 2) {
			o.e2eBoth(script(b), Opts{Sw: defSw})
		}
	}
	if tier == "thorough" {
		sk := EnumSkeletons(5, 2)
		for i := 0; i < 6000; i++ {
			o.e2eBoth(script(sk[r.N(len(sk))]), Opts{Sw: defSw})
		}
	}
	// a finished inner construct of every kind, then a continue / break that belongs to the enclosing loop
	inner := []string{"while { c1 if (flag(I)) { break } }", "while { if (flag(I)) { break } c1 }", "while (flag(I)) { c1 }", "do { c1 } while (flag(I))", "do { c1 if (flag(J)) { continue } c2 } while (flag(I))",
		"switch (var(V)) { case 1: c1 break case 2: c2 }", "while { while { break } c1 break }", "if (flag(I)) { c1 }"}
	outer := []string{"while (flag(O)) { %s }", "do { %s } while (flag(O))", "while { %s if (flag(P)) { break } }", "while (flag(O)) { switch (var(W)) { case 1: %s } c9 }"}
	after := []string{"if (flag(K)) { continue } c3", "if (flag(K)) { break } c3", "c3 if (flag(K)) { c4 continue }", "if (flag(K)) { c4 } else { continue } c3", "c3 continue", "c3 break"}
	for _, in := range inner {
		for _, ou := range outer {
			for _, af := range after {
				o.e2eBoth(script("c0 "+fmt.Sprintf(ou, "c5 "+in+" "+af)+" c8"), Opts{Sw: defSw})
			}
		}
	}
	randomScripts(o, r, scale(300, 6000), func(g *ScriptGen) { g.UseSwitch = false; g.UseCompound = false; g.UseAuto = false }, 0)
	randomScripts(o, r, scale(100, 2000), func(g *ScriptGen) { g.MaxDepth = 5; g.MaxLen = 3 }, 0)
}

func genC02(o *out, r *Rng) {
	o.dir("PROJ", "text")
	o.dir("ORACLE", "sem,validate")
	for k := 1; k <= scale(2, 3); k++ {
		z := 0
		for _, e := range EnumBexp(k, &z, true) {
			o.e2eBoth(script("  if ("+e+") {\n    yes\n  } else {\n    no\n  }"), Opts{Sw: defSw})
		}
	}
	for n := 2; n <= scale(6, 9); n++ {
		for _, e := range EnumBexpFlat(n) {
			o.e2eBoth(script("  if ("+e+") {\n    yes\n  } else {\n    no\n  }"), Opts{Sw: defSw})
			o.e2eBoth(script("  while ("+e+") {\n    body\n  }\n  after"), Opts{Sw: defSw})
		}
	}
	// every leaf form x operator x negation
	var leaves []string
	for _, k := range []string{"flag(F)", "defeated(T)"} {
		leaves = append(leaves, k, "!"+k)
		for _, op := range []string{"==", "!="} {
			for _, v := range []string{"TRUE", "FALSE", "true", "false"} {
				leaves = append(leaves, k+" "+op+" "+v)
			}
		}
	}
	for _, k := range []string{"var(V)", "checkitem(I)", "specialvar(VAR_R, X)"} {
		leaves = append(leaves, k, "!"+k)
		for _, op := range []string{"==", "!=", "<", "<=", ">", ">="} {
			leaves = append(leaves, k+" "+op+" 3", k+" "+op+" value(3)", k+" "+op+" VAR_OTHER", k+" "+op+" value(A + (1))")
		}
	}
	for _, l := range leaves {
		for _, w := range []string{"%s", "!(%s)", "(%s)", "flag(Q) && %s", "flag(Q) || !(%s)", "!(flag(Q) && %s)"} {
			if strings.HasPrefix(l, "!") && strings.HasPrefix(w, "flag(Q) ||") {
				continue
			}
			o.e2eBoth(script("  if ("+fmt.Sprintf(w, l)+") {\n    yes\n  } else {\n    no\n  }"), Opts{Sw: defSw})
		}
	}
	randomScripts(o, r, scale(300, 6000), func(g *ScriptGen) { g.UseSwitch = false; g.UseGoto = false; g.MaxDepth = 1 }, 0)
}

var swCtx = []string{"script S { %s }", "script S { before %s after }", "script S { while (flag(A)) { %s x } }", "script S { switch (var(W)) { case 9: %s default: d2 } z }", "script S { do { %s } while (flag(B)) }", "script S { if (flag(A)) { %s } else { e } tail }"}

func genC03(o *out, r *Rng) {
	o.dir("PROJ", "text")
	o.dir("ORACLE", "sem,validate")
	seeds(o, Opts{Sw: defSw})
	for k := 0; k <= scale(3, 4); k++ {
		for _, sw := range EnumSwitch(k) {
			for ci, c := range swCtx {
				if k == 3 && tier != "thorough" && ci >= 2 {
					continue
				}
				o.e2eBoth(fmt.Sprintf(c, sw)+"\n", Opts{Sw: defSw})
			}
		}
	}
	randomScripts(o, r, scale(300, 6000), func(g *ScriptGen) { g.UseCompound = false }, 0)
}

func progCases(o *out, r *Rng, n int, conf func(g *ProgGen), op Opts, layout int) {
	for i := 0; i < n; i++ {
		g := NewProgGen(r)
		conf(g)
		p := g.Program()
		var src string
		switch layout {
		case 1:
			src = p.A.Layout(r, false)
		case 2:
			src = p.A.LinePer(r)
		default:
			src = p.A.Canon()
		}
		op.Sw = g.Sw
		o.e2eBoth(src, op)
	}
}

func genC04(o *out, r *Rng) {
	o.dir("PROJ", "text")
	o.dir("ORACLE", "closed,sem,validate")
	seeds(o, Opts{Sw: defSw})
	progCases(o, r, scale(200, 4000), func(g *ProgGen) { g.UseConst = r.P(50) }, Opts{}, 0)
	randomScripts(o, r, scale(300, 6000), func(g *ScriptGen) { g.UseText = true; g.UseArgs = true }, 0)
	for k := 0; k <= 2; k++ {
		for _, sw := range EnumSwitch(k) {
			o.e2eBoth(fmt.Sprintf("script S { %s }\nscript Next { n }", sw), Opts{Sw: defSw})
		}
	}
	// commands the author wrote whose names look like jumps or terminators, as the last statement of a script / block: only
	// 'return', 'end' and the unconditional 'goto' end a script, anything else is followed by the generated terminator
	// (PROJ text compares with the model; the run-off scan of `closed` looks at the last instruction of every script)
	o.dir("ORACLE", "closed")
	tails := []string{"goto_if_set(FLAG_A, Other)", "goto_if_unset(FLAG_A, Other)", "goto_if_eq(VAR_X, 1, Other)", "call_if_set(FLAG_A, Other)", "gotonative(Func)", "goto_if(1, Other)", "returnqueststate", "endtrainerbattle", "ending",
		"goto(Other)", "return", "end", "call(Other)", "gotoram", "returnram", "vgoto_if(1, Other)", "goto_if_defeated(TRAINER_A, Other)", "callstd(2)", "gotostd(2)", "switch_x(1)", "case_x(1, Other)"}
	ctxs := []string{"script S { a %s }\nscript Other { o }", "script S { if (flag(A)) { a %s } }\nscript Other { o }", "script S { if (flag(A)) { a } else { %s } }\ntext Other { \"t\" }",
		"script S { while (flag(A)) { b } %s }\nscript Other { o }", "script S { switch (var(V)) { case 1: a default: %s } }\nscript Other { o }", "script S { a L: %s }\nmovement Other { walk_up }",
		"mapscripts M { MAP_SCRIPT_ON_LOAD { a %s } }\nscript Other { o }", "script S { do { %s } while (flag(A)) }\nscript Other { o }", "script S { %s }\nscript Other { o }"}
	for _, c := range ctxs {
		for _, tl := range tails {
			o.e2eBoth(fmt.Sprintf(c, tl), Opts{Sw: defSw})
		}
	}
}

func genC05(o *out, r *Rng) {
	o.dir("PROJ", "text")
	o.dir("ORACLE", "optim,sem,validate")
	seeds(o, Opts{Sw: defSw})
	for size := 1; size <= 3; size++ {
		for _, b := range EnumSkeletons(size, 2) {
			o.e2eBoth(script(b), Opts{Sw: defSw})
		}
	}
	randomScripts(o, r, scale(400, 8000), func(g *ScriptGen) {}, 0)
	progCases(o, r, scale(100, 2000), func(g *ProgGen) {}, Opts{}, 0)
	// the same content under several labels (text statements, inline strings, movement statements and moves()): both
	// settings must define the same labels with the same data
	pool := []string{"\"Hello\"", "\"Hello$\"", "\"Bye\"", "ascii\"Hello\"", "format(\"Hello\")", "\"Two\\nlines\""}
	for i := 0; i < scale(150, 3000); i++ {
		src := ""
		for k := 0; k < 1+r.N(3); k++ {
			src += fmt.Sprintf("text%s T%d { %s }\n", []string{"", "(local)", "(global)"}[r.N(3)], k, pool[r.N(len(pool))])
		}
		src += "script S {\n"
		for k := 0; k < 1+r.N(3); k++ {
			src += "msgbox(" + pool[r.N(len(pool))] + ")\n"
			if r.P(30) {
				src += "if (flag(A)) { msgbox(" + pool[r.N(len(pool))] + ") }\n"
			}
			if r.P(30) {
				src += "applymovement(1, moves(" + []string{"walk_up", "walk_up * 2", "walk_up walk_up"}[r.N(3)] + "))\n"
			}
		}
		src += "}\n"
		if r.P(40) {
			src += "movement M { " + []string{"walk_up", "walk_up * 2", "walk_up walk_up"}[r.N(3)] + " }\n"
		}
		if r.P(30) {
			src += fmt.Sprintf("text Late { %s }\n", pool[r.N(len(pool))])
		}
		o.e2eBoth(src, Opts{Sw: defSw})
	}
}

func genC06(o *out, r *Rng) {
	o.dir("PROJ", "text")
	o.dir("ORACLE", "hoist,cmdline")
	seeds(o, Opts{Sw: defSw})
	for i := 0; i < scale(400, 8000); i++ {
		// 1-4 scripts, inline texts from a small pool x types, moves(), in every nesting context
		var t Toks
		ns := 1 + r.N(4)
		for s := 0; s < ns; s++ {
			g := NewScriptGen(r)
			g.Prefix = fmt.Sprintf("s%d", s)
			g.UseText, g.UseArgs, g.UsePory = true, true, r.P(40)
			g.Texts = []string{"Hello", "Bye$", "Third one", "Bye", "Hello$"}
			g.AutoText = true
			g.MaxDepth = 2
			body := g.Block(0, false, false, 4)
			g.FixGotos(body)
			for k := r.N(3); k > 0; k-- {
				mv := []string{"walk_up", "walk_down * 2", "face_left", "face_left walk_down * 3", "face_left walk_down * 2", "walk_up walk_up", "walk_up * 2"}[r.N(7)]
				body = append(body, &Stmt{Kind: "cmd", Name: "applymovement", Args: []string{"1", ",", "moves", "(", mv, ")"}})
			}
			t = append(t, ScriptToks(fmt.Sprintf("Scr%d", s), "", body)...)
		}
		if r.P(30) {
			t = append(t, "mapscripts", "Map", "{", "MAP_SCRIPT_ON_LOAD", "{", "msgbox", "(", "\"Hello\"", ")", "foo", "(", "\"Only here\"", ")", "}", "}")
		}
		if r.P(30) {
			t = append(t, "text", "UserText", "{", "\"Hello\"", "}")
		}
		if r.P(35) {
			// the same literal laid out in different ways (different content, different labels), and different
			// literals with the same final content (one label)
			long := []string{"One two three four five six seven eight nine ten", "Hello"}[r.N(2)]
			forms := []string{"format(\"" + long + "\", 60, cursorOverlapWidth=0)", "format(\"" + long + "\", 60, cursorOverlapWidth=30)", "format(\"" + long + "\", 60, cursorOverlapWidth=55)",
				"format(\"" + long + "\", 100, cursorOverlapWidth=40, numLines=1)", "format(\"" + long + "\", 100, cursorOverlapWidth=1, numLines=1)", "format(\"" + long + "\", 100, numLines=3, cursorOverlapWidth=40)",
				"\"" + long + "\"", "format(\"" + long + "\")", "format(\"" + long + "\", 40)", "format(\"" + long + "\", 40, \"1_latin_rse\")", "format(\"" + long + "\", maxLineLength=0x28)",
				"format(\"" + long + "\", numLines=1)", "format(\"" + long + "\", 300)", "\"" + long + "$\"", "ascii\"" + long + "\""}
			t = append(t, "script", fmt.Sprintf("Fm%d", i), "{")
			for k := 2 + r.N(4); k > 0; k-- {
				t = append(t, "msgbox", "(", forms[r.N(len(forms))], ")")
			}
			t = append(t, "}")
		}
		o.e2eBoth(t.Canon(), Opts{Sw: defSw})
	}
	for i := 0; i < scale(200, 4000); i++ {
		t, x := collidingMoves(r)
		o.add(x)
		o.add(E2E(t.Canon(), Opts{Opt: r.P(50), Sw: defSw}))
	}
	// inline data of AutoVar commands inside conditions: numbered in order of first appearance in the SOURCE, also when a
	// parenthesised group comes first (the texts of a group are hoisted before those of the operands that follow it)
	avq := func(k int) string {
		return []string{fmt.Sprintf("msgbox(\"ask %d\", MSGBOX_YESNO) == YES", k), fmt.Sprintf("multichoice(0, 0, moves(walk_up * %d)) == 1", 1+k%4), fmt.Sprintf("checkitem(ascii\"it %d\", 1) != 0", k)}[k%3]
	}
	for i, cd := range []string{"(%s) && %s", "(%s) || %s", "(%s && %s) || %s", "%s && (%s || %s)", "!(%s) && %s", "((%s)) && (%s) && %s", "flag(A) || (%s) && %s", "(%s || flag(B)) && (%s) && %s"} {
		n := strings.Count(cd, "%s")
		args := make([]interface{}, n)
		for j := range args {
			args[j] = avq(3*i + j + 1)
		}
		c := fmt.Sprintf(cd, args...)
		for _, s := range []string{"script S { if (" + c + ") { a } msgbox(\"after\") }", "script S { msgbox(\"before\") while (" + c + ") { a } }", "script S { do { msgbox(\"body\") } while (" + c + ") }",
			"script S { if (flag(Z)) { z } elif (" + c + ") { msgbox(\"in\") } }\nscript T { msgbox(\"ask 1\") }", "mapscripts M { MAP_SCRIPT_ON_LOAD { if (" + c + ") { a } } }"} {
			o.e2eBoth(s, Opts{Sw: defSw})
		}
	}
	// several inline map scripts in one mapscripts statement, each introducing inline texts and moves() of its own (the
	// numbering is per owning inline script although all of them are hoisted after the one top-level statement)
	for i := 0; i < scale(150, 3000); i++ {
		var b strings.Builder
		k := 0
		body := func() string {
			var x strings.Builder
			for j := 1 + r.N(3); j > 0; j-- {
				k++
				switch r.N(4) {
				case 0:
					fmt.Fprintf(&x, " applymovement(%d, moves(walk_up * %d face_left))", k, 1+k%5)
				case 1:
					fmt.Fprintf(&x, " msgbox(\"text %d\")", k%4)
				case 2:
					fmt.Fprintf(&x, " applymovement(1, moves(walk_down * %d)) msgbox(\"t%d\")", 1+k%3, k)
				default:
					fmt.Fprintf(&x, " if (flag(F%d)) { applymovement(2, moves(face_up walk_left * %d)) }", k, 1+k%4)
				}
			}
			return x.String()
		}
		if r.P(40) {
			fmt.Fprintf(&b, "script Before {%s }\n", body())
		}
		b.WriteString("mapscripts Mp_MapScripts {\n")
		types := []string{"MAP_SCRIPT_ON_LOAD", "MAP_SCRIPT_ON_TRANSITION", "MAP_SCRIPT_ON_RESUME", "MAP_SCRIPT_ON_RETURN_TO_FIELD"}
		for j := 0; j < 1+r.N(3); j++ {
			fmt.Fprintf(&b, " %s {%s }\n", types[j], body())
		}
		if r.P(70) {
			b.WriteString(" MAP_SCRIPT_ON_FRAME_TABLE [\n")
			for j := 0; j < 1+r.N(3); j++ {
				if r.P(70) {
					fmt.Fprintf(&b, "  VAR_%d, %d {%s }\n", j, j, body())
				} else {
					fmt.Fprintf(&b, "  VAR_%d, %d: Ext%d\n", j, j, j)
				}
			}
			b.WriteString(" ]\n")
		}
		b.WriteString("}\n")
		if r.P(40) {
			fmt.Fprintf(&b, "script After {%s }\n", body())
		}
		o.e2eBoth(b.String(), Opts{Sw: defSw})
	}
	// clashes with user-defined names
	for _, s := range []string{
		"script A { msgbox(\"x\") }\ntext A_Text_0 { \"y\" }",
		"text A_Text_0 { \"y\" }\nscript A { msgbox(\"x\") }",
		"script A { foo(moves(walk_up)) }\nmovement A_Movement_0 { walk_down }",
		"movement A_Movement_0 { walk_down }\nscript A { foo(moves(walk_up)) }",
		"script A { msgbox(\"x\") }\nscript B { msgbox(\"z\") }\ntext B_Text_0 { \"y\" }",
		"mapscripts M { MAP_SCRIPT_ON_LOAD { msgbox(\"x\") } }\ntext M_MAP_SCRIPT_ON_LOAD_Text_0 { \"y\" }",
		// the user's statement has exactly the content of the generated one: still a clash (the label would be defined once, but
		// with the wrong scope, or the user's statement would be dropped)
		"script A { msgbox(\"x\") }\ntext A_Text_0 { \"x\" }", "text(global) A_Text_0 { \"x\" }\nscript A { msgbox(\"x\") }", "script A { msgbox(ascii\"x\") }\ntext(local) A_Text_0 { ascii\"x\" }",
		"script A { foo(moves(walk_up)) }\nmovement A_Movement_0 { walk_up }", "movement(global) A_Movement_0 { walk_up }\nscript A { foo(moves(walk_up)) }",
		"mapscripts M { MAP_SCRIPT_ON_LOAD { msgbox(\"x\") } }\ntext M_MAP_SCRIPT_ON_LOAD_Text_0 { \"x\" }",
	} {
		o.e2eBoth(s, Opts{Sw: defSw, Expect: "reject"})
	}
	// several pieces in ONE argument: the last inline piece wins, the earlier ones are still hoisted (boundary B21; model and implementation agree)
	for _, s := range []string{"script S { msgbox(\"a\" x \"b\") applymovement(\"c\" moves(up)) }", "script S { a(\"p\" \"q\", ascii\"r\" braille\"r\") b(moves(up) \"z\") }"} {
		o.e2eBoth(s, Opts{Sw: defSw})
	}
	// sharing is by (content, type): a typed string and a plain string whose content spells type + content (or any other
	// concatenation of the two) are different texts with their own labels
	for _, ty := range []string{"ascii", "braille", "custom"} {
		for _, other := range []string{ty + "Hi", "Hi" + ty, ty + ":Hi", ty + " Hi", ty + "\\\"Hi", "Hi"} {
			o.e2eBoth("script S { msgbox("+ty+"\"Hi\") msgbox(\""+other+"\") a("+ty+"\"Hi\", \""+other+"\") }", Opts{Sw: defSw})
			o.e2eBoth("script S { msgbox(\""+other+"\") msgbox("+ty+"\"Hi\") }\nscript T { msgbox("+ty+"\"Hi\") }", Opts{Sw: defSw})
		}
	}
}

func genC07(o *out, r *Rng) {
	o.dir("ORACLE", "fmt")
	for i := 0; i < scale(8000, 200000); i++ {
		o.add(GenFmt(r, false))
	}
	o.dir("ORACLE", "")
	o.dir("NOTE", "double-backslash stream (boundary B7): compared with the model only")
	for i := 0; i < scale(1000, 20000); i++ {
		o.add(GenFmt(r, true))
	}
	// the three parameter routes through the compiler
	o.dir("PROJ", "text")
	texts := []string{"Hello, this is some long text that I want Poryscript to automatically format for me.", "Hi\\pA paragraph that is long enough to wrap at least twice in a narrow box\\Nand goes on here", "{PLAYER} one two three four five six seven eight nine ten eleven"}
	fontspec := "fA|fA:100:3:6:" + Hex(" ") + "=3;" + Hex("default") + "=6;" + Hex("{PLAYER}") + "=40|fB:60:2:0:" + Hex(" ") + "=2;" + Hex("default") + "=5;" + Hex("e") + "=9;" + Hex("{PLAYER}") + "=11;" + Hex("{UP_ARROW}") + "=30"
	type fcall struct {
		call             string
		font             string // "" = inherit (-f, else the config default)
		maxW, nl, cursor int    // 0 / 0 / -1 = inherit
	}
	type fdef struct {
		widths         string
		maxW, nl, curs int
	}
	fonts := map[string]fdef{
		"fA": {Hex(" ") + "=3;" + Hex("default") + "=6;" + Hex("{PLAYER}") + "=40", 100, 3, 6},
		"fB": {Hex(" ") + "=2;" + Hex("default") + "=5;" + Hex("e") + "=9;" + Hex("{PLAYER}") + "=11;" + Hex("{UP_ARROW}") + "=30", 60, 2, 0},
	}
	calls := []fcall{
		{"format(\"%s\")", "", 0, 0, -1}, {"format(\"%s\", \"fB\")", "fB", 0, 0, -1}, {"format(\"%s\", 80)", "", 80, 0, -1},
		{"format(\"%s\", \"fB\", 80)", "fB", 80, 0, -1}, {"format(\"%s\", 80, \"fB\")", "fB", 80, 0, -1},
		{"format(\"%s\", fontId=\"fB\")", "fB", 0, 0, -1}, {"format(\"%s\", maxLineLength=80)", "", 80, 0, -1}, {"format(\"%s\", numLines=1)", "", 0, 1, -1},
		{"format(\"%s\", numLines=4, cursorOverlapWidth=11)", "", 0, 4, 11}, {"format(\"%s\", \"fB\", numLines=3)", "fB", 0, 3, -1},
		{"format(\"%s\", 90, cursorOverlapWidth=4, fontId=\"fB\")", "fB", 90, 0, 4}, {"format(\"%s\", \"fB\", 70, numLines=3, cursorOverlapWidth=2)", "fB", 70, 3, 2},
		{"format(ascii\"%s\", 75)", "", 75, 0, -1}, {"format(\"%s\", \"nofont\")", "nofont", 0, 0, -1}, {"format(\"%s\", maxLineLength=0)", "", -1, 0, -1},
		{"format(\"%s\", \"fA\", 90)", "fA", 90, 0, -1}, {"format(\"%s\", 190, \"fA\")", "fA", 190, 0, -1},
		{"format(\"%s\", 0x50)", "", 80, 0, -1}, {"format(\"%s\", maxLineLength=0x5A)", "", 90, 0, -1}, {"format(\"%s\", \"fB\", 0120)", "fB", 80, 0, -1},
		{"format(\"%s\", numLines=0x3, maxLineLength=0x46)", "", 70, 3, -1}, {"format(\"%s\", 0x64, cursorOverlapWidth=0xB, numLines=04)", "", 100, 4, 11},
		// integers outside int64 (strconv.ParseInt with the error ignored gives the nearest int64), syntax errors (0): no
		// generator-side expectation, the correspondence with the model decides (found by the proof of FormatParams.v)
		{"format(\"%s\", 99999999999999999999)", "", -1, 0, -1}, {"format(\"%s\", maxLineLength=9223372036854775808)", "", -1, 0, -1}, {"format(\"%s\", \"fB\", -99999999999999999999)", "fB", -1, 0, -1},
		{"format(\"%s\", numLines=99999999999999999999)", "", -1, 0, -1}, {"format(\"%s\", 0xFFFFFFFFFFFFFFFFFF, numLines=1)", "", -1, 0, -1}, {"format(\"%s\", maxLineLength=0x, numLines=0b)", "", -1, 0, -1},
		{"format(\"%s\", numLines=-9223372036854775809, maxLineLength=9223372036854775807)", "", -1, 0, -1}, {"format(\"%s\", 40, cursorOverlapWidth=-99999999999999999999)", "", -1, 0, -1},
	}
	for _, tx := range texts {
		for _, fcl := range calls {
			call := fcl.call
			src := "script S { msgbox(" + fmt.Sprintf(call, tx) + ") }\ntext T { " + fmt.Sprintf(call, tx) + " }"
			for _, cli := range [][2]string{{"", "0"}, {"fB", "0"}, {"", "120"}, {"fB", "50"}, {"bogus", "0"}} {
				ml, _ := strconv.Atoi(cli[1])
				// the parameters format() must use: named/positional > -f / -l > font config (numLines default 2)
				font := fcl.font
				if font == "" {
					font = cli[0]
				}
				if font == "" {
					font = "fA"
				}
				if fd, ok := fonts[font]; ok && fcl.maxW >= 0 { // an explicit maxLineLength=0 has no documented meaning: no expectation
					maxW := fcl.maxW
					if maxW <= 0 {
						maxW = ml
					}
					if maxW <= 0 {
						maxW = fd.maxW
					}
					nl := fcl.nl
					if nl <= 0 {
						nl = fd.nl
					}
					cu := fcl.cursor
					if cu <= 0 {
						cu = fd.curs
					}
					o.dir("EXPECTFMT", "T", fd.widths, fmt.Sprint(maxW), fmt.Sprint(cu), font, fmt.Sprint(nl), Hex(tx))
				}
				o.add(E2E(src, Opts{Opt: true, Sw: defSw, FontSpec: fontspec, CliFont: cli[0], CliMaxLen: ml}))
			}
			o.add(E2E(src, Opts{Opt: true, Sw: defSw}))
			o.add(E2E(src, Opts{Opt: true, Lint: true}))
		}
	}
	// several format() calls with different fonts in one program: each text is laid out with its own font's widths
	// (words with control codes whose width differs between the fonts, in both orders)
	two := []string{"{PLAYER} one two {PLAYER}! three four five six {PLAYER} seven eight nine", "up {UP_ARROW} and {PLAYER} went {UP_ARROW}{UP_ARROW} far away {PLAYER}{PLAYER} indeed it was so", "a{PLAYER}b a{PLAYER}b a{PLAYER}b a{PLAYER}b a{PLAYER}b a{PLAYER}b"}
	for _, tx := range two {
		for _, ord := range [][]string{{"fA", "fB"}, {"fB", "fA"}, {"fA", "fB", "fA"}, {"fB", "fB", "fA"}} {
			for _, mw := range []int{60, 80, 100} {
				src := ""
				for k, f := range ord {
					lab := fmt.Sprintf("T%d", k)
					src += fmt.Sprintf("text %s { format(\"%s\", \"%s\", %d) }\n", lab, tx, f, mw)
					fd := fonts[f]
					o.dir("EXPECTFMT", lab, fd.widths, fmt.Sprint(mw), fmt.Sprint(fd.curs), f, fmt.Sprint(fd.nl), Hex(tx))
				}
				o.add(E2E(src, Opts{Opt: true, Sw: defSw, FontSpec: fontspec}))
			}
		}
	}
	progCases(o, r, scale(50, 1000), func(g *ProgGen) { g.UseFormat = true }, Opts{}, 0)
}

func genC08(o *out, r *Rng) {
	o.dir("PROJ", "text")
	o.dir("ORACLE", "mapscripts,cmdline,hoist")
	seeds(o, Opts{Sw: defSw})
	for i := 0; i < scale(500, 10000); i++ {
		g := NewProgGen(r)
		g.UseConst = r.P(30)
		var p Pair
		if g.UseConst {
			p = g.Program() // to define the constants first
			p = Pair{}
			g.Consts = [][2]string{{"K1", "7"}}
			g.ConstTok["K1"] = Toks{"7"}
			p = Cat(p, Pair{Toks{"const", "K1", "=", "7"}, nil})
		}
		nm := 1 + r.N(2)
		for m := 0; m < nm; m++ {
			p = Cat(p, Same("mapscripts"), Pair{scopeT(r), nil}.DupA(), Same(fmt.Sprintf("Map%d_MapScripts", m), "{"), g.Mapscripts(m), Same("}"))
		}
		o.e2eBoth(p.A.Canon(), Opts{Sw: g.Sw})
	}
}

func scopeT(r *Rng) Toks {
	if r.P(30) {
		return Toks{"(", []string{"global", "local"}[r.N(2)], ")"}
	}
	return nil
}

func genC09(o *out, r *Rng) {
	o.dir("PROJ", "text")
	o.dir("ORACLE", "textterm")
	seeds(o, Opts{Sw: defSw})
	contents := []string{"abc", "abc$", "abc\\0", "abc$$", "", "$", "\\0", "level 10", "Route 110", "100% sure %% %s", "a\\nb", "tab\\there", "ends with backslash 0 \\\\0", "ünï ♂", "dollar$ inside", "0", "x0"}
	types := []string{"", "ascii", "braille", "custom", "string"}
	// a type prefix is compared literally: ASCII / Braille ... are "other types" (no terminator added, directive as written)
	for _, ty := range []string{"ASCII", "Ascii", "BRAILLE", "Braille", "aSCII", "String", "asciii", "brail"} {
		for _, c := range []string{"abc", "abc$", "abc\\0", ""} {
			l := ty + "\"" + c + "\""
			for _, s := range []string{"script S { msgbox(" + l + ") }", "text T { " + l + " }", "text T { poryswitch(V) { A: " + l + " _: \"other\" } }", "text T { format(" + l + ") }",
				"script S { msgbox(format(" + l + ", 40)) msgbox(" + strings.ToLower(ty) + "\"" + c + "\") }"} {
				o.add(E2E(s, Opts{Opt: true, Sw: defSw}))
			}
		}
	}
	// inline strings as arguments of AutoVar commands at every operand position of a condition, in every construct that has a
	// condition: each text is hoisted, referenced by its command and emitted once
	avs := func(k int) string { return fmt.Sprintf("msgbox(\"ask %d\", MSGBOX_YESNO)", k) }
	conds := []string{"%s", "%s == YES", "flag(A) && %s", "%s && flag(A)", "flag(A) || %s", "%s || flag(A)", "flag(A) && %s == 1 && flag(B)", "flag(A) && (flag(B) || %s)", "(%s) && (%s)", "!(%s == 1) && %s != 2",
		"flag(A) && flag(B) && %s", "flag(A) || flag(B) || %s", "flag(A) && %s || flag(B) && %s", "var(V) == 2 && multichoice(0, 0, moves(walk_up), \"mc\") == 1"}
	k := 0
	for _, cd := range conds {
		n := strings.Count(cd, "%s")
		args := make([]interface{}, n)
		for i := range args {
			k++
			args[i] = avs(k)
		}
		c := fmt.Sprintf(cd, args...)
		for _, s := range []string{"script S { if (" + c + ") { a } }", "script S { if (flag(Z)) { z } elif (" + c + ") { a } else { b } }", "script S { while (" + c + ") { a } }", "script S { do { a } while (" + c + ") }",
			"script S { do { msgbox(\"body\") } while (" + c + ") b }", "mapscripts M { MAP_SCRIPT_ON_LOAD { if (" + c + ") { a } } }"} {
			o.e2eBoth(s, Opts{Sw: defSw})
		}
	}
	for _, s := range []string{"script S { switch (msgbox(\"sw\", MSGBOX_YESNO)) { case 1: a } }", "script S { do { a } while (flag(A)) switch (multichoice(0, 0, \"x\")) { case 1: msgbox(\"in\") } }"} {
		o.e2eBoth(s, Opts{Sw: defSw})
	}
	for _, c := range contents {
		for _, ty := range types {
			lit := ty + "\"" + c + "\""
			multi := ty + "\"" + c + "\\n\"\n   \"second " + c + "\""
			ml := ty + "\"" + c + "\n     continued " + c + "\""
			for _, l := range []string{lit, multi, ml} {
				srcs := []string{
					"script S { msgbox(" + l + ") }",
					"text T { " + l + " }",
					"text T { poryswitch(V) { A: " + l + " _: \"other\" } }",
					"text T { poryswitch(V) { Q: \"other\" _: " + l + " } }",
					"text T { poryswitch(V) { A { " + l + " } } }",
				}
				if !strings.Contains(l, "\n") {
					srcs = append(srcs, "text T { format("+l+") }", "script S { msgbox(format("+l+", 40)) }")
				}
				for _, s := range srcs {
					o.add(E2E(s, Opts{Opt: true, Sw: defSw}))
				}
			}
		}
	}
	// several texts in one file whose type and content differ but whose concatenation "type+content" coincides
	for _, ty := range types[1:] {
		for _, c := range []string{"A", "abc$", "", " x"} {
			a, b := "\""+ty+c+"\"", ty+"\""+c+"\""
			for _, pr := range [][2]string{{a, b}, {b, a}} {
				o.add(E2E("script S { msgbox("+pr[0]+") msgbox("+pr[1]+") msgbox("+pr[0]+") }", Opts{Opt: true, Sw: defSw}))
				o.add(E2E("script S { msgbox("+pr[0]+") }\nscript U { msgbox("+pr[1]+") }\ntext T { "+pr[1]+" }", Opts{Opt: true, Sw: defSw}))
			}
		}
	}
	progCases(o, r, scale(100, 3000), func(g *ProgGen) { g.UseFormat = true }, Opts{}, 0)
}

func genC10(o *out, r *Rng) {
	o.dir("PROJ", "text")
	o.dir("ORACLE", "cmdline")
	seeds(o, Opts{Sw: defSw})
	// commands inside conditions (AutoVar commands) pass through like statements: inline strings / moves() become labels in every
	// construct that has a condition (no line with an empty argument)
	for _, c := range []string{"msgbox(\"ask\", MSGBOX_YESNO) == YES", "flag(A) && msgbox(\"second\") == 1", "multichoice(0, 0, moves(walk_up), \"mc\") == 1 || flag(B)", "!yesnobox(\"q\", 20, 8)",
		"flag(A) || flag(B) || msgbox(format(\"third one\")) == 2", "checkitem(ITEM_A, 1) && msgbox(\"x\") == 1 && multichoice(1, moves(face_up)) == 0"} {
		for _, s := range []string{"script S { if (" + c + ") { a } tail(1, 2) }", "script S { if (flag(Z)) { z } elif (" + c + ") { a } else { b } }", "script S { while (" + c + ") { a(1) } }", "script S { do { a(X, Y) } while (" + c + ") }",
			"script S { do { msgbox(\"body\") } while (" + c + ") b }", "mapscripts M { MAP_SCRIPT_ON_LOAD { do { a } while (" + c + ") } }", "script S { while (flag(Q)) { do { x } while (" + c + ") } }"} {
			o.e2eBoth(s, Opts{Sw: defSw})
		}
	}
	atoms := []string{"foo", "VAR_1", "7", "0x1F", "-3", "*", "+", "==", "<", "if", "value", "var", "global", "local", "TRUE", "script", "(", ")"}
	names := []string{"lock", "setvar", "special", "callnative", "end", "return", "goto", "setobjectscope", "local_cmd", "x", "héllo", "msgbox", "waitstate", "faceplayer"}
	for i := 0; i < scale(1500, 30000); i++ {
		// straight-line stretch of commands with random argument lists; the expected output lines are built alongside
		n := 1 + r.N(5)
		var t Toks
		var want, texts []string
		for c := 0; c < n; c++ {
			name := names[r.N(len(names))]
			if (name == "end" || name == "return") && c < n-1 && r.P(80) {
				name = "lock"
			}
			t = append(t, name)
			line := name
			if r.P(75) && name != "end" && name != "return" { // end / return take no arguments in the scripting language
				t = append(t, "(")
				na := r.N(5)
				var args []string
				for a := 0; a < na; a++ {
					if a > 0 {
						t = append(t, ",")
					}
					depth := 0
					nt := 1 + r.N(4)
					var arg []string
					if r.P(12) { // an inline text: replaced by the label of the hoisted text, in its own argument slot
						lit := fmt.Sprintf("t%d", len(texts))
						t = append(t, "\""+lit+"\"")
						args = append(args, fmt.Sprintf("S_Text_%d", len(texts)))
						texts = append(texts, lit)
						continue
					}
					for k := 0; k < nt; k++ {
						x := atoms[r.N(len(atoms))]
						if x == ")" {
							if depth == 0 {
								x = "y"
							} else {
								depth--
							}
						}
						if x == "(" {
							if k == nt-1 {
								x = "z"
							} else {
								depth++
							}
						}
						t = append(t, x)
						arg = append(arg, x)
						if depth > 0 && x != "(" && k < nt-1 && r.P(30) { // a comma inside a parenthesised group
							t = append(t, ",", "w")
							arg = append(arg, ",", "w")
						}
					}
					for ; depth > 0; depth-- {
						t = append(t, "q", ")")
						arg = append(arg, "q", ")")
					}
					args = append(args, strings.ReplaceAll(strings.Join(arg, " "), " , ", ", "))
				}
				t = append(t, ")")
				if len(args) > 0 {
					line += " " + strings.Join(args, ", ")
				}
			}
			want = append(want, line)
		}
		last := want[len(want)-1]
		if len(texts) > 0 && last != "end" && last != "return" {
			want = append(want, "return") // the generated return, followed by the hoisted texts
		}
		for _, x := range texts {
			want = append(want, ".string \""+x+"$\"")
		}
		body := t
		src := append(append(Toks{"script", "S", "{"}, body...), "}")
		o.dir("EXPECTLINES", Hex(strings.Join(want, "\n")))
		if r.P(30) {
			o.add(E2E(src.Layout(r, false), Opts{Opt: r.P(50), Sw: defSw}))
		} else {
			o.add(E2E(src.Canon(), Opts{Opt: r.P(50), Sw: defSw}))
		}
		if i%4 == 0 { // the whole stretch on ONE source line, line markers on: every command is still there, in order (no random draw here: the stream of the other cases stays as it was)
			o.dir("EXPECTLINES", Hex(strings.Join(want, "\n")))
			o.add(E2E(src.Canon(), Opts{Opt: i%8 == 0, Sw: defSw, LmPath: "src/one line.pory"}))
		}
	}
	// an inline string argument is replaced by the label of ITS text: typed and plain strings whose type + content coincide as strings
	for _, ty := range []string{"ascii", "braille"} {
		for _, other := range []string{ty + "Hi", "Hi" + ty, ty + ":Hi", "Hi"} {
			typed, plain := "."+ty+" \"Hi$\"", ".string \""+other+"$\""
			if ty == "ascii" {
				typed = ".ascii \"Hi\\0\""
			}
			for _, s := range [][2]string{{"script S { msgbox(" + ty + "\"Hi\") msgbox(\"" + other + "\", 2) a(" + ty + "\"Hi\", \"" + other + "\") }", "msgbox S_Text_0\nmsgbox S_Text_1, 2\na S_Text_0, S_Text_1\nreturn\n" + typed + "\n" + plain},
				{"script S { a(\"" + other + "\") b(" + ty + "\"Hi\") }", "a S_Text_0\nb S_Text_1\nreturn\n" + plain + "\n" + typed}} {
				for _, op := range []Opts{{Sw: defSw}, {Opt: true, Sw: defSw}, {Opt: true, Sw: defSw, LmPath: "m.pory"}} {
					o.dir("EXPECTLINES", Hex(s[1]))
					o.add(E2E(s[0], op))
				}
			}
		}
	}
	// single keyword arguments, end/return in the middle, poryswitch fallback with inline text
	for _, s := range [][2]string{{"script S { setobjectscope(local) faceplayer }", "setobjectscope local\nfaceplayer"}, {"script S { setobjectscope(global) faceplayer }", "setobjectscope global\nfaceplayer"},
		{"script S { lock end release msgbox(MSG) }", "lock\nend\nrelease\nmsgbox MSG"}, {"script S { lock return release }", "lock\nreturn\nrelease"}} {
		o.dir("EXPECTLINES", Hex(s[1]))
		o.add(E2E(s[0], Opts{Opt: true, Sw: defSw}))
		o.dir("EXPECTLINES", Hex(s[1]))
		o.add(E2E(s[0], Opts{Opt: false, Sw: defSw}))
	}
	for _, s := range []string{
		"script S { setobjectscope(local) faceplayer }", "script S { setobjectscope(global) faceplayer }", "script S { a(local) : }", "script S { lock end release msgbox(\"x\") }",
		"script S { lock return release }", "script S { if (flag(A)) { a end b } c }", "script S { poryswitch(V) { Q: a _: msgbox(\"t\", MSGBOX_NPC) } applymovement(P, moves(walk_up)) }",
		"script S { poryswitch(V) { Q: a _ { msgbox(format(\"t u\"), MSGBOX_NPC) applymovement(P, moves(walk_up)) } } }",
	} {
		o.e2eBoth(s, Opts{Sw: defSw})
	}
	randomScripts(o, r, scale(200, 4000), func(g *ScriptGen) { g.UseArgs = true; g.UseText = true; g.UsePory = true }, 0)
}

func genC11(o *out, r *Rng) {
	o.dir("PROJ", "text")
	o.dir("ORACLE", "sem,validate")
	cfgs := []string{"", "checkitem=VAR_RESULT,random=VAR_RANDOM,specialvar=#0", "checkitem=#0,random=#0,specialvar=#1", "checkitem=VAR_A,random=VAR_A,specialvar=#2", "specialvar=#5,random=#-1,checkitem=X"}
	for _, cfg := range cfgs {
		for _, s := range []string{
			"script S { if (checkitem(ITEM_1)) { a } }", "script S { if (!checkitem(ITEM_1, 2) && flag(A) || random(3) == 1) { a } else { b } }",
			"script S { while (specialvar(VAR_R, GetX) < 3) { a } }", "script S { do { a } while (flag(B) || checkitem(I) >= 2) }",
			"script S { switch (random(4)) { case 0: a case 1: b default: c } }", "script S { switch (specialvar(VAR_Q, F)) { case 1: c } tail }",
			"script S { if (flag(A) && checkitem(\"inline text\") == 2) { a } }", "script S { if (checkitem(I) && checkitem(I) || checkitem(J)) { a } }",
			"script S { if (specialvar(VAR_R)) { a } }", "script S { if (specialvar()) { a } }", "script S { if (random) { a } }", "script S { switch (checkitem) { case 1: a } }",
			"script S { if (var(checkitem) == 1) { a } }",
			"script S { poryswitch(V) { A: switch (random(4)) { case 0: a case 1: b } _: c } d }", "script S { poryswitch(V) { A { switch (random(4)) { case 0: a } } _: c } }",
			"script S { poryswitch(V) { A: if (checkitem(I) == 2) { a } _: c } d }", "script S { poryswitch(V) { Q: c _: while (random(2) == 1) { a } } d }",
			"script S { x poryswitch(V) { A: do { a } while (checkitem(I)) _ { c } } }", "script S { if (flag(F)) { poryswitch(W) { B: switch (specialvar(VAR_Q, F)) { case 1: c default: d } } } }",
		} {
			o.e2eBoth(s, Opts{Sw: defSw, Cfg: cfg})
		}
		// constants named like the result var, or chained constants in the argument at the configured position: the compared var is
		// the configured name / the argument AS RENDERED in the command
		for _, s := range []string{
			"const VAR_RESULT = VAR_TEMP_1\nconst VAR_RANDOM = VAR_TEMP_2\nconst VAR_A = VAR_TEMP_3\nscript S { switch (random(4)) { case 0: a case 1: b } }",
			"const VAR_RESULT = VAR_TEMP_1\nconst VAR_RANDOM = VAR_TEMP_2\nconst VAR_A = VAR_TEMP_3\nscript S { if (checkitem(I) == 2) { a } switch (checkitem(J)) { case 1: b default: c } }",
			"const A = B\nconst B = VAR_X\nscript S { switch (specialvar(A, F)) { case 1: c } tail }", "const A = B\nconst B = VAR_X\nscript S { if (specialvar(A, F) == 1) { c } while (random(A) != 0) { d } }",
			"const A = B\nconst B = VAR_X\nscript S { switch (checkitem(A)) { case B: c case 2: d } }", "const X = 1\nconst VAR_RESULT = X\nscript S { do { a } while (random(2) == X) switch (random(3)) { case X: b } }",
		} {
			o.e2eBoth(s, Opts{Sw: defSw, Cfg: cfg})
		}
		// an AutoVar command with an inline text / format() / moves() argument in every operand position of a chain
		autos := []string{"checkitem(\"Hello\") == 2", "random(format(\"Hi there\")) != 1", "checkitem(I, moves(walk_up face_down))", "!checkitem(\"Bye\", 3)", "specialvar(VAR_R, \"T\") > 1"}
		plain := []string{"flag(A)", "var(V) == 1", "!flag(B)", "defeated(T)"}
		for _, a := range autos {
			for _, ops := range [][2]string{{"&&", "&&"}, {"&&", "||"}, {"||", "&&"}, {"||", "||"}} {
				for pos := 0; pos < 3; pos++ {
					l := []string{plain[r.N(4)], plain[r.N(4)], plain[r.N(4)]}
					l[pos] = a
					if r.P(30) {
						l[(pos+1)%3] = autos[r.N(len(autos))]
					}
					e := l[0] + " " + ops[0] + " " + l[1] + " " + ops[1] + " " + l[2]
					forms := []string{"if (" + e + ") { a } else { b }", "while (" + e + ") { a }", "do { a } while (" + e + ")", "if (flag(Z)) { a } elif (" + e + ") { b }", "if ((" + e + ") && flag(Q)) { a }"}
					o.e2eBoth("script S { "+forms[r.N(len(forms))]+" tail }", Opts{Sw: defSw, Cfg: cfg})
				}
			}
		}
		// statements whose blocks are all empty still evaluate their conditions (AutoVar commands run)
		for _, s := range []string{
			"script S { if (flag(F)) {} elif (checkitem(I, 1) == 1) {} tail }", "script S { if (flag(F)) {} elif (flag(G)) {} elif (random(3) == 2) {} else {} }",
			"script S { if (flag(F)) {} elif (flag(G) || !checkitem(J)) {} }", "script S { if (checkitem(I) == 2) {} }", "script S { if (flag(F) && random(2)) {} else {} tail }",
			"script S { while (checkitem(I) == 2) {} tail }", "script S { do {} while (random(4) > 2) }", "script S { a if (flag(F)) { # only a comment\n } elif (specialvar(VAR_R, G) == 1) { } b }",
			"script S { switch (random(4)) { case 0: case 1: } tail }", "script S { if (flag(A)) {} elif (flag(B)) { if (flag(C)) {} elif (checkitem(K)) {} } }",
		} {
			o.e2eBoth(s, Opts{Sw: defSw, Cfg: cfg})
		}
	}
	for i := 0; i < scale(400, 8000); i++ {
		g := NewScriptGen(r)
		g.MaxDepth = 2
		g.UsePory = r.P(40)
		g.Sw = defSw
		body := g.Block(0, false, false, 4)
		g.FixGotos(body)
		o.e2eBoth(ScriptToks("S", "", body).Canon(), Opts{Sw: defSw, Cfg: cfgs[r.N(4)]})
	}
}

func metaCases(o *out, r *Rng, n int, conf func(g *ProgGen)) {
	for i := 0; i < n; i++ {
		g := NewProgGen(r)
		conf(g)
		p := g.Program()
		a, b := p.A.Canon(), p.B.Canon()
		var swl []string
		for _, k := range []string{"V", "W"} {
			swl = append(swl, k+"="+g.Sw[k])
		}
		o.add(Case{"META", []string{strings.Join(swl, ","), Hex(a), Hex(b)}})
		o.add(E2E(a, Opts{Opt: true, Sw: g.Sw}))
	}
}

func genC12(o *out, r *Rng) {
	o.dir("PROJ", "text")
	seeds(o, Opts{Sw: defSw})
	metaCases(o, r, scale(1500, 30000), func(g *ProgGen) { g.UsePory = true; g.UseFormat = r.P(30) })
	// conditions / switches on AutoVar commands that carry inline strings or moves(), inside selected and unselected cases: the
	// inline data of an unselected case must not reach the output (nor shift the numbering of the selected one)
	avc := []string{"if (msgbox(\"ask A\", MSGBOX_YESNO) == YES) { msgbox(\"in A\") }", "switch (multichoice(0, 0, \"mc\")) { case 1: msgbox(\"one\") }", "while (msgbox(format(\"again and again\")) == 1) { a }",
		"do { a } while (multichoice(1, moves(walk_up * 2)) == 1)", "if (flag(F) && msgbox(\"second\") == 1) { b }", "msgbox(\"plain\")", "lock"}
	for i := 0; i < scale(200, 4000); i++ {
		a, b, c := avc[r.N(len(avc))], avc[r.N(len(avc))], avc[r.N(len(avc))]
		forms := [][2]string{{"poryswitch(V) { A { %s } B { %s } _ { %s } }", "a"}, {"poryswitch(V) { B { %s } A { %s } _ { %s } }", "b"}, {"poryswitch(V) { B { %s } Q { %s } _ { %s } }", "c"}, {"poryswitch(W) { A { %s } B { %s } }", "b"},
			{"poryswitch(V) { Q { %s } _ { %s } A { %s } }", "c"}}
		f := forms[r.N(len(forms))]
		sel := map[string]string{"a": a, "b": b, "c": c}[f[1]]
		var ps string
		if strings.Count(f[0], "%s") == 3 {
			ps = fmt.Sprintf(f[0], a, b, c)
		} else {
			ps = fmt.Sprintf(f[0], a, b)
		}
		pre, post := "msgbox(\"before\")", "msgbox(\"after\") msgbox(\"plain\")"
		if r.P(50) {
			pre = "lock"
		}
		prog := "script S { " + pre + " " + ps + " " + post + " }\nscript T { msgbox(\"ask A\") }"
		twin := "script S { " + pre + " " + sel + " " + post + " }\nscript T { msgbox(\"ask A\") }"
		o.add(Case{"META", []string{"V=A,W=B", Hex(prog), Hex(twin)}})
		o.add(E2E(prog, Opts{Opt: r.P(50), Sw: defSw}))
	}
	// list positions: the selected case exists but is empty ('A {}', 'A:' right before the closing brace, a nested poryswitch
	// that yields nothing): nothing is contributed - the '_' case is NOT a fallback for an empty selected case
	for _, pr := range [][2]string{
		{"movement M { walk_up poryswitch(V) { A {} _ { walk_down } } face_left }", "movement M { walk_up face_left }"},
		{"movement M { walk_up poryswitch(V) { _ { walk_down step_end } A {} } face_left }", "movement M { walk_up face_left }"},
		{"movement M { poryswitch(V) { _: walk_down\n A: } walk_up }", "movement M { walk_up }"},
		{"movement M { poryswitch(V) { A {} } walk_up }", "movement M { walk_up }"},
		{"movement M { poryswitch(V) { A { poryswitch(W) { B {} _ { x } } } _ { walk_down } } walk_up }", "movement M { walk_up }"},
		{"mart M { ITEM_A poryswitch(V) { A {} _ { ITEM_Z ITEM_NONE } } ITEM_B }", "mart M { ITEM_A ITEM_B }"},
		{"mart M { poryswitch(V) { _ { ITEM_Z }\n A: } ITEM_B }", "mart M { ITEM_B }"},
		{"script S { x(moves(walk_up poryswitch(V) { A {} _ { walk_down } } face_left)) }", "script S { x(moves(walk_up face_left)) }"},
		{"script S { x(moves(poryswitch(V) { A {} })) }", "script S { x(moves()) }"},
	} {
		o.add(Case{"META", []string{"V=A,W=B", Hex(pr[0]), Hex(pr[1])}})
		o.add(E2E(pr[0], Opts{Opt: true, Sw: defSw}))
	}
	// case labels are compared as written: a constant named like a label (or like the switch value) changes nothing
	for _, pr := range [][2]string{
		{"const A = 2\nscript S { poryswitch(V) { A: a _: b } }", "const A = 2\nscript S { a }"},
		{"const A = B\nscript S { poryswitch(V) { B: b A { a } _: c } }", "const A = B\nscript S { a }"},
		{"const B = A\nscript S { poryswitch(V) { B: b _: c } }", "const B = A\nscript S { c }"},
		{"const A = 2\ntext T { poryswitch(V) { A: \"a\" _: \"b\" } }", "const A = 2\ntext T { \"a\" }"},
		{"const A = 2\nmovement M { poryswitch(V) { A: walk_up _: walk_down } }", "const A = 2\nmovement M { walk_up }"},
		{"const A = 2\nmart M { poryswitch(V) { _: ITEM_Z\n A: ITEM_A } }", "const A = 2\nmart M { ITEM_A }"},
		{"const A = 2\nconst V = W\nscript S { x(moves(poryswitch(V) { A: walk_up _: walk_down })) }", "const A = 2\nconst V = W\nscript S { x(moves(walk_up)) }"},
		{"const _ = A\nscript S { poryswitch(W) { A: a _: b } }", "const _ = A\nscript S { b }"},
	} {
		o.add(Case{"META", []string{"V=A,W=B", Hex(pr[0]), Hex(pr[1])}})
		o.add(E2E(pr[0], Opts{Opt: true, Sw: defSw}))
	}
	// no matching case and no default: must fail (normal mode)
	for _, s := range []string{"script S { poryswitch(V) { Q: a } }", "text T { poryswitch(V) { Q: \"a\" } }", "movement M { poryswitch(V) { Q: walk_up } }", "mart M { poryswitch(V) { Q: I } }", "script S { foo(moves(poryswitch(V) { Q: walk_up })) }", "script S { poryswitch(NOSUCH) { _: a } }", "script S { poryswitch(NOSUCH) { A: a } }"} {
		o.add(E2E(s, Opts{Opt: true, Sw: defSw}))
	}
}

func genC13(o *out, r *Rng) {
	o.dir("PROJ", "text")
	seeds(o, Opts{Sw: defSw})
	metaCases(o, r, scale(1500, 30000), func(g *ProgGen) { g.UseConst = true; g.UsePory = r.P(30) })
	for _, s := range [][2]string{
		{"const A = BASE_FLAG\nconst B = A\nscript S { setflag(B) }\nmart M { B }", "script S { setflag(BASE_FLAG) }\nmart M { BASE_FLAG }"},
		{"const A = 1\nconst B = A + 1\nconst C = B * B\nscript S { foo(C) }", "script S { foo(1 + 1 * 1 + 1) }"},
		{"const FOO = 1\nscript S { switch (var(V)) { case 1: a case FOO: b } }", "script S { switch (var(V)) { case 1: a case 1: b } }"},
		{"const X = 1\nconst Y = 1\nscript S { switch (var(V)) { case X: a case Y: b } }", "script S { switch (var(V)) { case 1: a case 1: b } }"},
		{"const SHOP_END = ITEM_NONE\nmart M { I1 SHOP_END I2 }", "mart M { I1 ITEM_NONE I2 }"},
		{"const foo = bar\nscript S { foo(foo) foo }", "script S { foo(bar) foo }"},
		{"const walk_up = walk_down\nmovement M { walk_up }\nscript S { x(moves(walk_up)) walk_up: goto(walk_up) }", "movement M { walk_up }\nscript S { x(moves(walk_up)) walk_up: goto(walk_down) }"},
		{"const T = 5\ntext T { \"T\" }\nscript S { msgbox(\"T\") }", "text T { \"T\" }\nscript S { msgbox(\"T\") }"},
		{"const V = VAR_X\nconst N = 3\nscript S { if (var(V) >= N && flag(V) || defeated(N)) { a } if (var(V) == value(N)) { b } }", "script S { if (var(VAR_X) >= 3 && flag(VAR_X) || defeated(3)) { a } if (var(VAR_X) == value(3)) { b } }"},
		{"const V = VAR_X\nconst N = 3\nmapscripts M { MAP_SCRIPT_ON_FRAME_TABLE [ V, N: Foo V, N { a } ] MAP_SCRIPT_ON_LOAD: V }", "mapscripts M { MAP_SCRIPT_ON_FRAME_TABLE [ VAR_X, 3: Foo VAR_X, 3 { a } ] MAP_SCRIPT_ON_LOAD: V }"},
		{"const NEXT = BASE + 1\nconst BASE = 4\nscript S { foo(NEXT) bar(BASE) switch (var(V)) { case NEXT: a } }\nmapscripts M { MAP_SCRIPT_ON_FRAME_TABLE [ V, NEXT: Foo ] }", "script S { foo(BASE + 1) bar(4) switch (var(V)) { case BASE + 1: a } }\nmapscripts M { MAP_SCRIPT_ON_FRAME_TABLE [ V, BASE + 1: Foo ] }"},
		{"const A = B\nconst B = C\nconst C = 3\nscript S { foo(A, B, C) }", "script S { foo(B, C, 3) }"},
		{"const A = 1\nconst A = 2\nscript S { foo(A) }", "const"},
		{"const A = 1\nscript S { a }\nconst A = 1", "const"},
	} {
		o.add(Case{"META", []string{"V=A,W=B", Hex(s[0]), Hex(s[1])}})
		o.add(E2E(s[0], Opts{Opt: true, Sw: defSw}))
	}
}

func expandSteps(t []string) []string {
	var out []string
	for i := 0; i < len(t); i++ {
		if t[i] == "*" {
			n, _ := strconv.Atoi(t[i+1])
			for k := 1; k < n; k++ {
				out = append(out, out[len(out)-1])
			}
			i++
			continue
		}
		out = append(out, t[i])
	}
	return out
}

func collidingMoves(r *Rng) (Toks, Case) {
	pool := [][]string{{"delay_16"}, {"delay_1", "*", "6"}, {"delay_1", "*", "61"}, {"delay_161"}, {"delay_1", "delay_1", "delay_1", "delay_1", "delay_1", "delay_1"}, {"delay_16", "*", "1"},
		{"delay_1", "*", "1", "delay_6"}, {"delay_1", "delay_6"}, {"delay_1", "*", "16"}, {"delay_11", "*", "6"}, {"walk_up2"}, {"walk_up", "*", "2"}, {"walk_up", "walk_up"}, {"walk_up", "*", "21"}, {"walk_up2", "*", "1"}, {"walk_up21"}}
	src := Toks{"script", "S", "{"}
	pre := [][]string{{}, {"walk_up"}, {"face_left", "*", "2"}}[r.N(3)]
	post := [][]string{{}, {"walk_down"}, {"jump", "*", "3"}}[r.N(3)]
	var want []string
	for k := 0; k < 2+r.N(4); k++ {
		src = append(src, "applymovement", "(", "P", ",", "moves", "(")
		var mv []string
		mv = append(mv, pre...)
		mv = append(mv, pool[r.N(len(pool))]...)
		mv = append(mv, post...)
		src = append(src, mv...)
		src = append(src, ")", ")")
		want = append(want, strings.Join(expandSteps(mv), " "))
	}
	return append(src, "}"), Case{"EXPECTMOVES", []string{"applymovement", Hex(strings.Join(want, ";"))}}
}

func genC14(o *out, r *Rng) {
	o.dir("PROJ", "text")
	o.dir("ORACLE", "lists")
	seeds(o, Opts{Sw: defSw})
	mults := []string{"0", "1", "2", "9", "010", "0x10", "9999", "0x270F", "10000", "0x2710", "-1", "9223372036854775808", "99999999999999999999", "x", "0x", "1_0", "07", "08"}
	for _, m := range mults {
		o.add(E2E("movement M { walk_up * "+m+" walk_down }", Opts{Opt: true, Sw: defSw}))
		o.add(E2E("script S { x(moves(walk_up * "+m+")) }", Opts{Opt: true, Sw: defSw}))
	}
	// several moves() in one file whose step lists differ although "name followed by repeat count" reads the same
	// (delay_16 once / delay_1 six times / delay_1 sixty-one times / delay_161 ...): each must keep its own content
	for i := 0; i < scale(300, 6000); i++ {
		t, x := collidingMoves(r)
		o.add(x)
		o.add(E2E(t.Canon(), Opts{Opt: true, Sw: defSw}))
	}
	// a poryswitch whose selected case is empty contributes nothing (the '_' case is not a fallback for it)
	for _, s := range []string{"movement M { walk_up poryswitch(V) { A {} _ { walk_down } } face_left }", "movement M { walk_up poryswitch(V) { _ { walk_down step_end } A {} } face_left }",
		"movement M { poryswitch(V) { _: walk_down\n A: } walk_up }", "movement M { poryswitch(V) { A {} } walk_up }", "movement M { poryswitch(V) { A {} } }", "movement M { poryswitch(V) { A { poryswitch(W) { B {} _ { x } } } _ { walk_down } } walk_up }",
		"mart M { ITEM_A poryswitch(V) { A {} _ { ITEM_Z ITEM_NONE } } ITEM_B }", "mart M { poryswitch(V) { _ { ITEM_Z }\n A: } ITEM_B }", "mart M { poryswitch(V) { A {} } }",
		"script S { x(moves(walk_up poryswitch(V) { A {} _ { walk_down } } face_left)) }", "script S { x(moves(poryswitch(V) { A {} })) y(moves(poryswitch(V) { _ { walk_down } A {} })) }"} {
		o.add(E2E(s, Opts{Opt: true, Sw: defSw}))
	}
	steps := []string{"walk_up", "walk_down", "step_end", "face_left", "jump"}
	for i := 0; i < scale(1500, 30000); i++ {
		n := r.N(9)
		var t Toks
		for k := 0; k < n; k++ {
			s := steps[r.N(len(steps))]
			if s == "step_end" && r.P(60) {
				s = "delay_16"
			}
			t = append(t, s)
			if r.P(30) {
				t = append(t, "*", []string{"1", "2", "3", "0x4", "010", "12"}[r.N(6)])
			}
			if r.P(25) {
				t = append(t, ",")
			}
			if r.P(10) {
				t = append(t, "poryswitch", "(", "V", ")", "{", "A", "{", "pa", "pb", "*", "2", "}", "_", ":", "pz", "}")
			}
		}
		var src Toks
		switch r.N(5) {
		case 0:
			src = append(append(Toks{"movement", "M", "{"}, t...), "}")
		case 1:
			src = append(append(Toks{"script", "S", "{", "applymovement", "(", "P", ",", "moves", "("}, t...), ")", ")", "}")
		case 2:
			// several moves() whose contents differ only in a multiplier or a trailing run: sharing must be by expanded content
			base := []string{"face_left", "walk_up", "jump"}[r.N(3)]
			src = Toks{"script", "S", "{"}
			for k := 0; k < 2+r.N(3); k++ {
				src = append(src, "applymovement", "(", "P", ",", "moves", "(", base, ",", "walk_up", "*", []string{"1", "2", "3", "2"}[r.N(4)])
				if r.P(30) {
					src = append(src, "walk_up")
				}
				src = append(src, ")", ")")
			}
			src = append(src, "}", "script", "S2", "{", "applymovement", "(", "P", ",", "moves", "(", base, ",", "walk_up", "*", "2", ")", ")", "}")
		case 3:
			if r.P(50) {
				// step lists that differ as lists although their names concatenate to the same string
				word := []string{"walk_up", "set_invisible", "face_left", "haha", "jump_2_down"}[r.N(5)] + []string{"", "walk_down", "lock_facing"}[r.N(3)]
				split := func() Toks {
					var out Toks
					rest := word
					for len(rest) > 0 {
						k := 1 + r.N(len(rest))
						for k < len(rest) && !(rest[k] >= 'a' && rest[k] <= 'z' || rest[k] == '_') { // every piece is an identifier
							k++
						}
						out = append(out, rest[:k])
						rest = rest[k:]
					}
					return out
				}
				src = Toks{"script", "S", "{"}
				for k := 0; k < 2+r.N(3); k++ {
					src = append(append(append(src, "applymovement", "(", "P", ",", "moves", "("), split()...), ")", ")")
				}
				src = append(src, "}")
				break
			}
			fallthrough
		default:
			// mart
			var it Toks
			m := r.N(8)
			for k := 0; k < m; k++ {
				x := fmt.Sprintf("ITEM_%d", r.N(5))
				if r.P(12) {
					x = "ITEM_NONE"
				}
				if r.P(10) {
					x = "KNONE"
				}
				it = append(it, x)
				if r.P(10) {
					it = append(it, "poryswitch", "(", "W", ")", "{", "B", ":", "PB", "_", "{", "PZ1", "PZ2", "}", "}")
				}
			}
			src = append(append(Toks{"const", "KNONE", "=", "ITEM_NONE", "mart", "Shop", "{"}, it...), "}")
		}
		o.add(E2E(src.Canon(), Opts{Opt: true, Sw: defSw}))
	}
}

func genC15(o *out, r *Rng) {
	o.dir("PROJ", "text")
	o.dir("ORACLE", "scopes")
	seeds(o, Opts{Sw: defSw})
	kinds := []string{"script %s { lock L1: foo L2(global): bar L3(local): baz if (flag(A)) { msgbox(\"t\") x(moves(walk_up)) } }", "text %s { \"t\" }", "movement %s { walk_up }", "mart %s { ITEM_A }",
		"mapscripts %s { MAP_SCRIPT_ON_LOAD { msgbox(\"in\") I1(global): a I2(local): b I3: c } MAP_SCRIPT_ON_FRAME_TABLE [ V, 1 { msgbox(\"t2\") if (flag(B)) { q } } V, 2: Ext ] MAP_SCRIPT_ON_RESUME: Ext2 }"}
	for _, k := range kinds {
		for _, sc := range []string{"", "(global)", "(local)"} {
			src := fmt.Sprintf(k, sc+" Name")
			o.e2eBoth(src, Opts{Sw: defSw})
			// the scope of a label does not depend on the line-marker setting
			o.e2eBoth(src, Opts{Sw: defSw, LmPath: "in.pory"})
			o.e2eBoth(strings.ReplaceAll(src, " ", "\n"), Opts{Sw: defSw, LmPath: "dir/in.pory"})
			for _, k2 := range kinds {
				for _, sc2 := range []string{"", "(global)", "(local)"} {
					o.add(E2E(fmt.Sprintf(k2, sc2+" First")+"\n"+src, Opts{Opt: true, Sw: defSw}))
				}
			}
		}
	}
	progCases(o, r, scale(200, 4000), func(g *ProgGen) { g.UseScopes = true }, Opts{}, 0)
	progCases(o, r, scale(60, 1200), func(g *ProgGen) { g.UseScopes = true }, Opts{LmPath: "f.pory"}, 0)
	randomScripts(o, r, scale(200, 4000), func(g *ScriptGen) { g.UseScope = true; g.UseText = true }, 0)
	// the same inline text in two scripts
	o.e2eBoth("script A { msgbox(\"same\") msgbox(\"own\") }\nscript(local) B { msgbox(\"same\") }", Opts{Sw: defSw})
	// lint mode accepts a text / movement statement named like a generated label (D20): its scope is still the written one
	for _, sc := range []string{"", "(global)", "(local)"} {
		for _, s := range []string{"script S { msgbox(\"t\") }\ntext" + sc + " S_Text_0 { \"user\" }", "text" + sc + " S_Text_0 { \"user\" }\nscript S { msgbox(\"t\") msgbox(\"u\") }",
			"script S { x(moves(walk_up)) }\nmovement" + sc + " S_Movement_0 { walk_down }", "script S { poryswitch(V) { A: a _: msgbox(\"t\") } }\ntext" + sc + " S_Text_0 { \"user\" }"} {
			o.add(E2E(s, Opts{Opt: true, Lint: true}))
			o.add(E2E(s, Opts{Opt: false, Lint: true, Sw: defSw}))
		}
		// the user's statement has exactly the content of the hoisted one: it is not dropped in favour of the generated (local) label
		for _, s := range []string{"script S { msgbox(\"t\") }\ntext" + sc + " S_Text_0 { \"t\" }", "text" + sc + " S_Text_0 { \"t\" }\nscript S { msgbox(\"t\") msgbox(\"u\") }",
			"script S { x(moves(walk_up)) }\nmovement" + sc + " S_Movement_0 { walk_up }", "script S { msgbox(braille\"t\") }\ntext" + sc + " S_Text_0 { braille\"t\" }"} {
			o.e2eBoth(s, Opts{Sw: defSw, Expect: "reject"}) // one name cannot carry the written scope and the generated local one
			o.add(E2E(s, Opts{Opt: true, Lint: true}))
		}
	}
}

func genC16(o *out, r *Rng) {
	o.dir("PROJ", "text")
	o.dir("ORACLE", "markers")
	paths := []string{"in.pory", "dir\\sub\\f.pory", "data/maps/Route 1/scripts.pory", "My%20Town/100%_sure/tmp%d/%s.pory", "ünï/♂.pory", "a'b/c.pory"}
	for _, s := range Seeds {
		for _, p := range paths[:2] {
			o.add(E2E(s, Opts{Opt: true, Sw: defSw, LmPath: p}))
		}
		o.add(E2E(s, Opts{Opt: true, Sw: defSw}))
		o.add(E2E(s, Opts{Opt: true, Sw: defSw, LmOn: true})) // -lm (the default) reading from stdin: no markers
	}
	for i := 0; i < scale(300, 6000); i++ {
		g := NewProgGen(r)
		g.UseConst = r.P(30)
		g.UseFormat = r.P(30)
		p := g.Program()
		var src string
		switch r.N(3) {
		case 0:
			src = p.A.Canon()
		case 1:
			src = p.A.Layout(r, false)
		default:
			src = p.A.LinePer(r)
		}
		opt := r.P(50)
		if r.P(20) {
			src = strings.ReplaceAll(src, "\n", "\r\n") // a file saved with Windows line endings
		}
		o.add(E2E(src, Opts{Opt: opt, Sw: g.Sw, LmPath: paths[r.N(len(paths))]}))
		o.add(E2E(src, Opts{Opt: opt, Sw: g.Sw}))
		if r.P(30) {
			o.add(E2E(src, Opts{Opt: opt, Sw: g.Sw, LmOn: true}))
		}
	}
	for i := 0; i < scale(300, 6000); i++ {
		g := NewScriptGen(r)
		g.UseText, g.UseArgs = true, true
		body := g.Block(0, false, false, 5)
		g.FixGotos(body)
		t := ScriptToks("S", "", body)
		src := t.LinePer(r)
		if r.P(40) {
			src = t.Layout(r, false)
		}
		opt := r.P(50)
		o.add(E2E(src, Opts{Opt: opt, Sw: g.Sw, LmPath: paths[r.N(len(paths))]}))
		o.add(E2E(src, Opts{Opt: opt, Sw: g.Sw}))
	}
	// constructs whose tokens are spread over several lines (and interrupted by comments): the marker names the line where
	// the construct starts
	type wrapped struct {
		src   string
		marks string // line<TAB>prefix of the emitted line that the marker with that line precedes
	}
	for _, wc := range []wrapped{
		{"script S {\n  switch (var(VAR_BASE +\n      OFFSET)) {\n    case 1: a\n    case 2:\n      b\n  }\n}", "2\t\tswitch VAR_BASE + OFFSET\n4\t\tcase 1,\n5\t\tcase 2,\n4\t\ta\n6\t\tb"},
		{"script S {\n  switch (var(VAR_BASE # why\n  + 1 // more\n  + 2)) {\n    case 1:\n      a\n  }\n  tail\n}", "2\t\tswitch VAR_BASE + 1 + 2\n5\t\tcase 1,\n6\t\ta\n8\t\ttail"},
		{"const K = 3\nscript S {\n  switch (var(K +\n K)) {\n    case K: a\n    default:\n b\n  }\n}", "3\t\tswitch 3 + 3\n5\t\tcase 3,\n5\t\ta\n7\t\tb"},
		{"script S {\n  switch\n (\n var\n (\n VAR_A\n )\n )\n {\n    case\n 1\n :\n a\n  }\n}", "6\t\tswitch VAR_A\n11\t\tcase 1,\n13\t\ta"},
		{"script S {\n  if (var(VAR_A +\n 1) ==\n 2 +\n 3) {\n a\n }\n}", "2\t\tcompare VAR_A + 1, 2 + 3\n6\t\ta"},
		{"script S {\n  if (flag(A\n) &&\n !flag(\n B) ||\n defeated(T\n)) {\n a\n } elif (var(\n V) >\n 3) {\n b\n }\n}", "2\t\tgoto_if_set A,\n5\t\tgoto_if_unset B,\n6\t\tchecktrainerflag T\n10\t\tcompare V, 3\n8\t\ta\n12\t\tb"},
		{"script S {\n  while (var(VAR_A) <\n 10 +\n 1) {\n a\n }\n  do {\n b\n } while (flag(\n C))\n}", "2\t\tcompare VAR_A, 10 + 1\n5\t\ta\n8\t\tb\n10\t\tgoto_if_set C,"},
		{"script S {\n  cmd(1,\n 2 +\n 3,\n \"text\n over lines\")\n  other(moves(walk_up\n walk_down *\n 2))\n}", "2\t\tcmd 1, 2 + 3,\n7\t\tother \n7\t\twalk_up\n8\t\twalk_down\n5\t\t.string"},
		{"script S {\n  switch (random(\n 4)) {\n case 0: a\n }\n  if (checkitem(I,\n 2) ==\n 1) {\n b\n }\n}", "4\t\tcase 0,\n4\t\ta\n9\t\tb"},
		{"mapscripts M {\n  MAP_SCRIPT_ON_FRAME_TABLE [\n    VAR_A +\n 1, 2 +\n 3 {\n a\n }\n    VAR_B,\n 1: Lbl\n  ]\n}", "2\t\tmap_script MAP_SCRIPT_ON_FRAME_TABLE,\n3\t\tmap_script_2 VAR_A + 1, 2 + 3,\n8\t\tmap_script_2 VAR_B, 1, Lbl\n6\t\ta"},
		{"script S {\n  msgbox(format(\n \"Hello world\"\n ,\n 100\n ))\n  tail\n}\ntext T {\n format(\n \"abc def\"\n , 40\n )\n}", "2\t\tmsgbox S_Text_0\n7\t\ttail\n3\t\t.string \"Hello\n9\t\t.string \"abc"},
		{"script S {\n  msgbox(\n ascii\"typed\"\n )\n  foo(format(\"a b\",\n numLines=1\n ), moves(\n walk_up\n ))\n}", "2\t\tmsgbox S_Text_0\n5\t\tfoo S_Text_1\n8\t\twalk_up\n3\t\t.ascii \"typed\n5\t\t.string \"a b"},
		{"movement M {\n walk_up *\n 3\n walk_down\n}\nmart Shop {\n ITEM_A\n ITEM_B\n}\ntext T {\n \"a\\n\"\n \"b\"\n}", "2\t\twalk_up\n4\t\twalk_down\n7\t\t.2byte ITEM_A\n8\t\t.2byte ITEM_B"},
	} {
		for _, opt := range []bool{false, true} {
			o.dir("EXPECTMARK", Hex(wc.marks))
			o.add(E2E(wc.src, Opts{Opt: opt, Sw: defSw, LmPath: "in.pory", Cfg: "checkitem=VAR_RESULT,random=VAR_RESULT"}))
			o.add(E2E(wc.src, Opts{Opt: opt, Sw: defSw, Cfg: "checkitem=VAR_RESULT,random=VAR_RESULT"}))
		}
	}
	// raw blocks: empty, blank lines, trailing spaces, Windows line endings, no final newline
	raws := []string{"", "\n", "x", "\nfirst\n\n\nafter blanks\n", "  indented  \n\ttabbed\t\n", "a\r\nb\r\n", "\r\n", "last line without newline\nend"}
	for _, rw := range raws {
		for _, pre := range []string{"", "script A { lock }\n"} {
			src := pre + "raw `" + rw + "`\nscript B { release }\nraw `" + rw + "`"
			for _, p := range []string{"in.pory", ""} {
				o.add(E2E(src, Opts{Opt: true, Sw: defSw, LmPath: p}))
				o.add(E2E(strings.ReplaceAll(src, "\n", "\r\n"), Opts{Opt: true, Sw: defSw, LmPath: p}))
			}
		}
	}
}

func genC17(o *out, r *Rng) {
	o.dir("PROJ", "full")
	o.dir("ORACLE", "hist")
	// histories: every input is compiled several times, interleaved with unrelated and failing inputs
	var pool []Case
	for _, s := range Seeds {
		pool = append(pool, E2E(s, Opts{Opt: true, Sw: defSw}), E2E(s, Opts{Opt: false, Sw: defSw, LmPath: "x.pory"}))
	}
	for i := 0; i < scale(150, 3000); i++ {
		g := NewProgGen(r)
		g.UseFormat = r.P(40)
		g.UseConst = r.P(40)
		src := g.Program().A.Canon()
		if r.P(25) {
			src = Mutate(r, src)
		}
		pool = append(pool, E2E(src, Opts{Opt: r.P(50), Sw: g.Sw, Lint: r.P(10)}))
	}
	pool = append(pool, E2E("script S { msgbox(format(\"x y\", \"bogus\")) }", Opts{Opt: true, Sw: defSw}), E2E("text T { format(\"x\", \"nofont\") }", Opts{Sw: defSw}))
	dup := "text A { \"1\" }\ntext B { \"2\" }\n\ntext A { \"3\" }\ntext C { \"c\" }\ntext B { \"4\" }\ntext C { \"5\" }\nmovement M { walk_up }\nmovement N { walk_up }\nmovement M { walk_down }\nmovement N { x }"
	dup2 := "script S { msgbox(\"a\") msgbox(\"b\") }\ntext S_Text_1 { \"x\" }\ntext S_Text_0 { \"y\" }"
	dup3 := "movement M { walk_up }\nmovement N { walk_up }\nmovement M { walk_down }\nmovement N { x }\nmovement O { x }\nmovement O { y }"
	// several user labels, in different chunks of one script, that clash with generated labels: always the same error
	dup4 := "script S {\n lock\n if (flag(A)) {\n S_2:\n a\n } else {\n S_3:\n b\n }\n S_1:\n c\n while (flag(B)) {\n S_5:\n d\n }\n}"
	dup5 := "script S {\n msgbox(\"t\")\n if (flag(A)) {\n S_Text_0:\n a\n }\n S_2:\n b\n switch (var(V)) {\n case 1:\n S_4:\n c\n case 2:\n S_1:\n d\n }\n}"
	dup6 := "mapscripts M {\n MAP_SCRIPT_ON_LOAD {\n if (flag(A)) {\n M_MAP_SCRIPT_ON_LOAD_2:\n a\n } else {\n M_MAP_SCRIPT_ON_LOAD_1:\n b\n }\n M_MAP_SCRIPT_ON_LOAD_3:\n c\n }\n}"
	for k := 0; k < 12; k++ {
		pool = append(pool, E2E(dup, Opts{Opt: true, Sw: defSw}), E2E(dup2, Opts{Opt: true, Sw: defSw}), E2E(dup3, Opts{Opt: true, Sw: defSw}))
		pool = append(pool, E2E(dup4, Opts{Opt: true, Sw: defSw}), E2E(dup4, Opts{Opt: false, Sw: defSw}), E2E(dup5, Opts{Opt: k%2 == 0, Sw: defSw}), E2E(dup6, Opts{Opt: k%2 == 0, Sw: defSw}))
	}
	wA := Hex(" ") + "=3;" + Hex("default") + "=6"
	wB := Hex(" ") + "=1;" + Hex("default") + "=2"
	wC := Hex(" ") + "=3;" + Hex("default") + "=6;" + Hex("e") + "=1;" + Hex("o") + "=14"
	ftext := "one two three four five six seven eight nine ten eleven twelve"
	ftxt := "script S { msgbox(format(\"Hello there some words to wrap around the text box of the game one two three\")) }\ntext T { format(\"" + ftext + "\", numLines=3) }"
	expect := map[string]Case{}
	for k := 0; k < 4; k++ {
		for _, w := range []string{wA, wB, wC, wB, wA} {
			c := E2E(ftxt, Opts{Opt: true, Sw: defSw, FontSpec: "f|f:60:2:0:" + w})
			pool = append(pool, c)
			// the same font id means different widths in different compilations: each must be laid out with its own table
			expect[strings.Join(c.Fields, "\t")] = Case{"EXPECTFMT", []string{"T", w, "60", "0", "f", "3", Hex(ftext)}}
		}
	}
	// two fonts in one configuration file, compilations that differ only in -f / -l
	wA2 := Hex(" ") + "=3;" + Hex("default") + "=6"
	wB2 := Hex(" ") + "=2;" + Hex("default") + "=11"
	spec2 := "fA|fA:100:3:0:" + wA2 + "|fB:100:3:0:" + wB2
	for k := 0; k < 6; k++ {
		for _, cli := range []string{"", "fB", "fA", "fB", ""} {
			c := E2E(ftxt, Opts{Opt: true, Sw: defSw, FontSpec: spec2, CliFont: cli})
			pool = append(pool, c)
			w, f := wA2, "fA"
			if cli == "fB" {
				w, f = wB2, "fB"
			}
			expect[strings.Join(c.Fields, "\t")] = Case{"EXPECTFMT", []string{"T", w, "100", "0", f, "3", Hex(ftext)}}
		}
	}
	n := len(pool) * 3
	for i := 0; i < n; i++ {
		c := pool[r.N(len(pool))]
		if x, ok := expect[strings.Join(c.Fields, "\t")]; ok {
			o.add(x)
		}
		o.add(c)
	}
	// the inline scripts of one mapscripts statement are unrelated to each other: each is emitted as it is on its own
	for i := 0; i < scale(120, 2500); i++ {
		ne := 2 + r.N(2)
		perm := r.N(3)
		var entries []Toks
		for k := 0; k < ne; k++ {
			sg := NewScriptGen(r)
			sg.Prefix = fmt.Sprintf("m%d", k)
			sg.Sw = defSw
			sg.MaxDepth = 2
			b := sg.Block(0, false, false, 3)
			sg.FixGotos(b)
			ty := []string{"MAP_SCRIPT_ON_LOAD", "MAP_SCRIPT_ON_TRANSITION", "MAP_SCRIPT_ON_RESUME"}[(perm+k)%3]
			entries = append(entries, append(append(Toks{ty, "{"}, BlockToks(b)...), "}"))
		}
		whole := Toks{"mapscripts", "Mp", "{"}
		for _, e := range entries {
			whole = append(whole, e...)
		}
		whole = append(whole, "}")
		opt := r.P(70)
		for _, e := range entries {
			alone := append(append(Toks{"mapscripts", "Mp", "{"}, e...), "}")
			o.dir("EXPECTSAME", "Mp_"+e[0], Hex(alone.Canon()))
		}
		o.add(E2E(whole.Canon(), Opts{Opt: opt, Sw: defSw}))
	}
	// independence of surrounding statements: X alone vs. X among unrelated statements (no inline text: numbering would differ)
	o.dir("ORACLE", "hist,embed")
	// format() with one font among statements formatted with another font: the two fonts of the repository's font config give
	// different widths to the same control codes and characters; each text is laid out with the table of its own font
	codes := []string{"{UP_ARROW}", "{DOWN_ARROW}", "{POKEBLOCK}", "{SUPER_E}", "{PLAYER}", "{LEFT_ARROW}{RIGHT_ARROW}"}
	for i := 0; i < scale(60, 1200); i++ {
		words := func() string {
			var w []string
			for k := 2 + r.N(6); k > 0; k-- {
				if r.P(50) {
					w = append(w, strings.Repeat(codes[r.N(len(codes))], 1+r.N(3)))
				} else {
					w = append(w, []string{"aa", "Hi", "ok", "iii", "WWW", "a"}[r.N(6)])
				}
			}
			return strings.Join(w, " ")
		}
		fa, fb := "1_latin_rse", "1_latin_frlg"
		if r.P(50) {
			fa, fb = fb, fa
		}
		mw := 30 + r.N(60)
		tx := words()
		x := fmt.Sprintf("text XGreeting { format(\"%s\", \"%s\", %d) }\n", tx, fa, mw)
		before := fmt.Sprintf("text Other { format(\"%s\", \"%s\", %d) }\n", tx, fb, mw)
		if r.P(50) {
			before += fmt.Sprintf("text Third { format(\"%s\", \"%s\", %d) }\n", words(), fb, mw)
		}
		after := ""
		if r.P(50) {
			after = fmt.Sprintf("text Last { format(\"%s\", \"%s\") }\n", words(), fb)
		}
		o.dir("EMBED", Hex(x), Hex(before), Hex(after))
		o.add(E2E(x, Opts{Opt: true, Sw: defSw}))
		o.add(E2E(before+after, Opts{Opt: true, Sw: defSw}))
		o.add(E2E(before+x+after, Opts{Opt: true, Sw: defSw}))
	}
	for i := 0; i < scale(150, 3000); i++ {
		g := NewProgGen(r)
		g.TextPool = nil
		mk := func(k int) Toks {
			gg := NewProgGen(r)
			gg.Sw = g.Sw
			switch k {
			case 0:
				sg := NewScriptGen(r)
				sg.Prefix = fmt.Sprintf("u%d", r.N(1000))
				sg.Sw = g.Sw
				b := sg.Block(0, false, false, 4)
				sg.FixGotos(b)
				return ScriptToks(fmt.Sprintf("Scr%d", r.N(1000)), "", b)
			case 1:
				return append(append(Toks{"movement", fmt.Sprintf("Mv%d", r.N(1000)), "{"}, gg.StepsA(3)...), "}")
			case 2:
				return append(append(Toks{"mart", fmt.Sprintf("Mt%d", r.N(1000)), "{"}, gg.ItemsA(3)...), "}")
			case 3:
				return Toks{"raw", "`raw " + strconv.Itoa(r.N(100)) + "`"}
			default:
				return Toks{"text", fmt.Sprintf("Tx%d", r.N(1000)), "{", "\"t" + strconv.Itoa(r.N(50)) + "\"", "}"}
			}
		}
		x := mk(r.N(4))
		for k := range x { // the statement under test uses names of its own
			for _, pre := range []string{"Scr", "Mv", "Mt", "Tx"} {
				if strings.HasPrefix(x[k], pre) && len(x[k]) > len(pre) && x[k][len(pre)] >= '0' && x[k][len(pre)] <= '9' {
					x[k] = "X" + x[k]
				}
			}
		}
		if r.P(40) {
			// a script whose labels imitate the generated labels of *other* scripts (legal: they are not its own)
			x = Toks{"script", "Xs", "{", "lock", fmt.Sprintf("Other_%d", 1+r.N(4)), ":", "if", "(", "flag", "(", "F", ")", ")", "{", fmt.Sprintf("Other_%d", 5+r.N(3)), ":", "a", "}", "b", "}"}
		}
		var before, after Toks
		if r.P(60) {
			before = Toks{"script", "Other", "{", "if", "(", "flag", "(", "A", ")", ")", "{", "p", "}", "while", "(", "flag", "(", "B", ")", ")", "{", "q", "if", "(", "flag", "(", "C", ")", ")", "{", "r", "}", "}", "s", "}"}
		}
		for k := r.N(3); k > 0; k-- {
			before = append(before, mk(r.N(5))...)
		}
		for k := r.N(3); k > 0; k-- {
			after = append(after, mk(r.N(5))...)
		}
		o.dir("EMBED", Hex(x.Canon()), Hex(before.Canon()), Hex(after.Canon()))
		o.add(E2E(x.Canon(), Opts{Opt: true, Sw: g.Sw}))
		o.add(E2E(before.Canon()+after.Canon(), Opts{Opt: true, Sw: g.Sw}))
		o.add(E2E(before.Canon()+x.Canon()+after.Canon(), Opts{Opt: true, Sw: g.Sw}))
	}
}

func genC18(o *out, r *Rng) {
	o.dir("PROJ", "kindrange")
	o.dir("ORACLE", "crash,lintacc")
	var bases []string
	bases = append(bases, Seeds...)
	for i := 0; i < 40; i++ {
		g := NewProgGen(r)
		g.UseConst, g.UseFormat = true, true
		bases = append(bases, g.Program().A.Canon())
	}
	emit := func(src string) {
		opt := r.P(50)
		lm := ""
		if r.P(30) {
			lm = "f.pory"
		}
		sw := defSw
		if r.P(30) {
			sw = map[string]string{}
		}
		op := Opts{Opt: opt, Sw: sw, LmPath: lm}
		if r.P(15) {
			op.CliFont = "bogus"
		}
		o.add(E2E(src, op))
		op.Lint = true
		o.add(E2E(src, op))
	}
	// truncation of every seed at every token boundary (quick: sampled)
	for _, s := range Seeds {
		f := strings.Fields(s)
		for i := 0; i <= len(f); i++ {
			if tier != "thorough" && len(f) > 12 && r.N(len(f)) > 12 {
				continue
			}
			emit(strings.Join(f[:i], " "))
		}
	}
	for i := 0; i < scale(1500, 40000); i++ {
		emit(Mutate(r, bases[r.N(len(bases))]))
	}
	for i := 0; i < scale(500, 10000); i++ {
		emit(Soup(r))
	}
	// constants that mention themselves, each other, or names defined later
	for _, s := range []string{"const A = A\nscript S { foo(A) }", "const A = B\nconst B = A\nscript S { foo(A, B) }", "const A = B\nconst B = A\nscript S { if (var(A) == B) { x } }",
		"const A = B\nconst B = C\nconst C = A\nmart M { A B C }", "const A = B\nconst B = A\nscript S { switch (var(A)) { case B: x } }", "const A = A + 1\nscript S { foo(A) }",
		"const A = B\nconst B = A\nmapscripts M { MAP_SCRIPT_ON_FRAME_TABLE [ A, B: L ] }", "const A = B\nconst B = A\nconst C = A\nscript S { foo(C) }", "const A = B\nconst B = 2\nscript S { foo(A, B) }",
		"const A = A\nscript S { lock }", "const B = A\nconst A = B\nscript S { if (flag(A) && defeated(B)) { x } }"} {
		emit(s)
	}
	for _, s := range []string{"const TWO = A B\nmart M { TWO X }", "const TWO = A B\nmart M { X TWO TWO }\nmovement Mv { TWO }", "const E =\nmart M { E }", "const K = ITEM_NONE\nmart M { A K B }"} {
		emit(s)
	}
	for i := 0; i < scale(400, 8000); i++ {
		g := NewScriptGen(r)
		g.UseText, g.UseArgs, g.UsePory = true, true, r.P(30)
		body := g.Block(0, false, false, 6)
		g.FixGotos(body)
		emit(ScriptToks("S", "", body).Canon())
	}
	// every character class the lexer distinguishes, in every place where the parser collects tokens up to a closer
	atoms := []string{"\u0663", "\uff13\uff14", "-\u0663\u0664", "0\u0665", "0x\u0661", "7\u0663", "\u00e9", "\u02b0x", "x\u0301", "\u00a0", "\u2028", "\u200d", "\ufeff", "\x00", "\x7f", "\x1b", "\u00b2", "\u2167", "\U0001d7d8", "\xff", "#", "@", "`", "'"}
	holes := []string{"script S { setvar(VAR_X, %s) }", "script S { setvar(%s) release }", "const K = %s\nscript S { foo(K) }", "script S { if (var(%s) == 1) { a } }", "script S { if (var(V) == %s) { a } }",
		"script S { if (flag(%s)) { a } }", "script S { switch (var(%s)) { case 1: a } }", "script S { switch (var(V)) { case %s: a } }", "mapscripts M { MAP_SCRIPT_ON_FRAME_TABLE [ %s, 1: L ] }",
		"mapscripts M { MAP_SCRIPT_ON_FRAME_TABLE [ V, %s: L ] }", "movement M { walk_up * %s }", "movement M { %s }", "mart M { %s }", "text T { format(\"x\", %s) }", "text T { format(\"x\", numLines=%s) }",
		"script S { %s }", "script S { foo(moves(%s)) }", "%s", "script %s { }", "script S { poryswitch(%s) { _: a } }", "script S { L%s: goto(L%s) }", "raw %s"}
	for _, h := range holes {
		for _, a := range atoms {
			emit(strings.ReplaceAll(h, "%s", a))
		}
	}
	// error exits that random mutation rarely reaches (found with tools/gocover.py: statements of parser.go never executed by
	// the generated cases): unterminated brace-form poryswitch cases in all three positions, named format() parameters of the
	// wrong type, a switch without cases, malformed comparison values, no matching poryswitch case
	for _, s := range []string{"script S { poryswitch(V) { A { lock", "script S { poryswitch(V) { A { lock ]", "script S { poryswitch(V) { A { lock } B { lock", "script S { poryswitch(V) { A { lock ) } }",
		"text T { poryswitch(V) { A { \"x\"", "text T { poryswitch(V) { A { \"x\" ] } }", "text T { poryswitch(V) { A { \"x\" \"y\" } } }", "text T { poryswitch(V) { A { format(\"x\") ) } }",
		"movement M { poryswitch(V) { A { walk_up", "movement M { poryswitch(V) { A { walk_up ) } }", "mart M { poryswitch(V) { A { ITEM_X", "mart M { poryswitch(V) { A { ITEM_X ] } }", "script S { foo(moves(poryswitch(V) { A { walk_up ] } })) }",
		"text T { format(\"x\", fontId=3) }", "text T { format(\"x\", fontId=abc) }", "text T { format(\"x\", cursorOverlapWidth=\"a\") }", "text T { format(\"x\", cursorOverlapWidth=) }", "text T { format(\"x\", numLines=x) }",
		"text T { format(\"x\", maxLineLength=\"9\") }", "text T { format(\"x\", bogus=3) }", "text T { format(\"x\", numLines=2 cursorOverlapWidth=1) }", "text T { format(\"x\", numLines=2,, ) }", "text T { format(\"x\", numLines=2, 3) }",
		"script S { switch (random(2) { case 1: a } }", "script S { switch (random(2) x) { case 1: a } }", "script S { switch (random(2)", "script S { switch (var(X)) { } }", "script S { switch (var(X)) { } lock }", "script S { switch (random(2)) { } }",
		"script S { if (flag(A) == ) { a } }", "script S { if (flag(A) == 3) { a } }", "script S { if (flag(A) == TRUE x) { a } }", "script S { if (defeated(A) != maybe) { a } }", "script S { if (flag(A) ==", "script S { if (var(X) == value 3) { a } }",
		"script S { if (var(X) == value) { a } }", "script S { if (var(X) == value(", "script S { if (var(X) == value()) { a } }", "script S { if (var(X) > value(3) { a } }", "script S { if (!flag(A) == TRUE) { a } }", "script S { if (!var(X) == 1) { a } }",
		"script S { poryswitch(V) { B: lock } }", "script S { poryswitch(V) { B { lock } C: foo } lock }", "script S { poryswitch(Z) { B: lock } }", "text T { poryswitch(V) { B: \"x\" } }", "movement M { poryswitch(V) { B: walk_up } }", "mart M { poryswitch(V) { B: ITEM_X } }",
		"text T { ascii }", "text T { ascii x }", "script S { foo(ascii) }", "script S { foo(ascii 3) }"} {
		emit(s)
	}
	// lint mode selects other poryswitch cases and formats with no font: the generated names differ from those of the real
	// compilation; author's statements named like generated labels (D20: found while stating the lint theorem)
	for i := 0; i < scale(300, 6000); i++ {
		emit(LintNameProgram(r))
	}
	// unterminated nests whose levels have fewer tokens than parsing functions (found by the fuel proof: FuelOk.v)
	for d := 1; d <= 12; d++ {
		for _, lv := range []string{"while { ", "do { ", "if (flag(A)) { ", "while (flag(A)) { ", "switch (var(V)) { case 1: ", "poryswitch(V) { A { "} {
			emit("script X { " + strings.Repeat(lv, d))
			emit("script X { " + strings.Repeat(lv, d) + "if (flag(A)) {")
			emit("mapscripts M { MAP_SCRIPT_ON_LOAD { " + strings.Repeat(lv, d))
		}
	}
	// deep nesting
	for _, d := range []int{10, 50, scale(200, 2000)} {
		emit("script S { if (" + strings.Repeat("(", d) + "flag(A)" + strings.Repeat(")", d) + ") { a } }")
		emit("script S { " + strings.Repeat("if (flag(A)) { ", d) + "x" + strings.Repeat(" }", d) + " }")
		emit("script S { foo(" + strings.Repeat("(", d) + "1" + strings.Repeat(")", d) + ") }")
		emit("script S { " + strings.Repeat("while (flag(A)) { ", d) + "x")
	}
	// truncation at every CHARACTER inside nested parentheses of every collecting position (value(..), command arguments, case values,
	// AutoVar arguments, table entries, constant values): the collecting loops must stop at the end of the input at any depth
	// (appended at the end, without random draws: the stream of the cases above is unchanged)
	for _, s := range []string{"script S { if (var(V) == value((1 + 2) * (3))) { a } }", "script S { foo((a, (b)), c) }", "script S { switch (var(V)) { case (1): a } }",
		"script S { if (checkitem((I), (2)) == (3)) { a } }", "mapscripts M { T [ (A), (1): L ] }", "const C = (1 + (2))\nscript S { f(C) }", "script S { while (var(V) >= value(((1)))) { b } }",
		"script S { do { a } while (flag((F))) }", "mart M { (A) B }", "movement Mv { a * (2) }", "script S { x(moves(a * (2)), format((\"t\"))) }"} {
		for i := 0; i <= len(s); i++ {
			o.add(E2E(s[:i], Opts{Opt: i%2 == 0, Sw: defSw}))
			o.add(E2E(s[:i], Opts{Opt: i%2 == 0, Sw: defSw, Lint: true}))
		}
	}
}

func genC19(o *out, r *Rng) {
	o.dir("ORACLE", "lexpos")
	for i := 0; i < scale(6000, 120000); i++ {
		o.add(GenLexSoup(r))
	}
	o.dir("ORACLE", "lexpos,lexpair")
	for i := 0; i < scale(4000, 80000); i++ {
		t := GenLexemes(r)
		a := t.Layout(r, r.P(30))
		b := t.Layout(r, r.P(30))
		o.add(Case{"LEXPAIR", []string{Hex(a), Hex(b)}})
	}
	// the same file saved with LF and with CRLF line ends, including line breaks INSIDE string literals (a line break in a
	// literal and the indentation behind it become one space; a literal continued by an adjacent literal is joined with \n)
	for _, x := range []string{"script S {\n  msgbox(\"Hello there,\n     traveller!\")\n}\n", "text T {\n  \"first\\n\"\n  \"second\n  third\"\n}\n", "text T { ascii\"a\n\n  b\" }\n",
		"script S { msgbox(format(\"one two\n   three\")) }\n", "script S {\n foo # c\n bar // d\n baz(\"x\n\ty\")\n}\n", "text T { \"ends with break\n\" }\n", "movement M {\n walk_up\n}\n"} {
		o.add(Case{"LEXPAIR", []string{Hex(x), Hex(strings.ReplaceAll(x, "\n", "\r\n"))}})
	}
	// every class at column 0 / after a multi-byte rune / at EOF
	for _, x := range Lexemes {
		for _, pre := range []string{"", "é ", "日本\n", "\r\n", "# c\n", "x ", "€"} {
			for _, post := range []string{"", " ", "\n", "é", " x", "// c", "//", " //", "#", " #", "// ", "/", " /", "//\r", "/**/"} {
				o.add(Case{"LEX", []string{Hex(pre + x + post)}})
			}
		}
	}
	// layout does not change the compiled output
	o.dir("PROJ", "text")
	o.dir("ORACLE", "layout")
	for i := 0; i < scale(150, 3000); i++ {
		g := NewProgGen(r)
		g.UseConst = r.P(30)
		p := g.Program()
		o.add(E2E(p.A.Canon(), Opts{Opt: true, Sw: g.Sw}))
		o.add(E2E(p.A.Layout(r, false), Opts{Opt: true, Sw: g.Sw}))
		// (third layout: sometimes with a comment as the very last bytes of the file, no newline after it)
		o.add(E2E(p.A.Layout(r, true)+[]string{"", "", "", "//", "#", " //", "\n//", "// x", "# x", "//\r", "\t#"}[r.N(11)], Opts{Opt: true, Sw: g.Sw}))
	}
}

func genC20(o *out, r *Rng) {
	o.dir("PROJ", "errline")
	o.dir("ORACLE", "reject")
	// one violation injected at a random position of a valid program, one lexeme per line; the harness knows the line
	for i := 0; i < scale(1500, 30000); i++ {
		src, line, kind := InjectInto(r)
		if kind == "" {
			continue
		}
		o.add(E2E(src, Opts{Opt: r.P(50), Sw: defSw, Expect: fmt.Sprintf("errline=%d:%s", line, kind)}))
	}
	for _, s := range FixedViolations {
		o.add(E2E(s.Src, Opts{Opt: true, Sw: defSw, Expect: fmt.Sprintf("errline=%d:fixed", s.Line)}))
		o.add(E2E(s.Src, Opts{Opt: false, Sw: defSw, Expect: fmt.Sprintf("errline=%d:fixed", s.Line)}))
	}
	// valid twins must still be accepted
	o.dir("ORACLE", "")
	randomScripts(o, r, scale(100, 2000), func(g *ScriptGen) {}, 0)
}

var gens = map[string]func(*out, *Rng){
	"C01": genC01, "C02": genC02, "C03": genC03, "C04": genC04, "C05": genC05, "C06": genC06, "C07": genC07, "C08": genC08, "C09": genC09, "C10": genC10,
	"C11": genC11, "C12": genC12, "C13": genC13, "C14": genC14, "C15": genC15, "C16": genC16, "C17": genC17, "C18": genC18, "C19": genC19, "C20": genC20,
}

func main() {
	prop := flag.String("prop", "", "property id")
	flag.StringVar(&tier, "tier", "quick", "quick | thorough")
	sd := flag.Uint64("seed", 1, "PRNG seed")
	rerun := flag.String("rerun", "", "re-execute the inputs of this case file")
	flag.Parse()
	seed = *sd
	if *rerun != "" {
		cs, err := ReadInputs(*rerun)
		if err != nil {
			fmt.Fprintln(os.Stderr, err)
			os.Exit(2)
		}
		WriteAll(os.Stdout, cs)
		return
	}
	g, ok := gens[*prop]
	if !ok {
		fmt.Fprintln(os.Stderr, "unknown property", *prop)
		os.Exit(2)
	}
	o := &out{}
	// property-specific stream so that properties do not share a sequence
	var h uint64
	for _, c := range *prop {
		h = h*131 + uint64(c)
	}
	g(o, NewRng(seed*1000003+h))
	WriteAll(os.Stdout, o.cases)
}
