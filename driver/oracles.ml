(* Direct oracles: scans of the implementation's output text against what the property demands, using the
   model's parse of the source only to know what the author wrote (names, labels, scopes, inline texts).
   Each returns a list of failure messages (empty = nothing found).  Unverified glue: an oracle can miss a failure,
   the check then still reports the broken correspondence as `no-failing-input-found`. *)
open Model

let rec int_of_pos = function XH -> 1 | XO p -> 2 * int_of_pos p | XI p -> 2 * int_of_pos p + 1
let int_of_n = function N0 -> 0 | Npos p -> int_of_pos p
let int_of_z = function Z0 -> 0 | Zpos p -> int_of_pos p | Zneg p -> - (int_of_pos p)

let encode_cp b c =
  if c < 0x80 then Buffer.add_char b (Char.chr c)
  else if c < 0x800 then (Buffer.add_char b (Char.chr (0xC0 lor (c lsr 6))); Buffer.add_char b (Char.chr (0x80 lor (c land 0x3F))))
  else if c < 0x10000 then (Buffer.add_char b (Char.chr (0xE0 lor (c lsr 12))); Buffer.add_char b (Char.chr (0x80 lor ((c lsr 6) land 0x3F))); Buffer.add_char b (Char.chr (0x80 lor (c land 0x3F))))
  else (Buffer.add_char b (Char.chr (0xF0 lor (c lsr 18))); Buffer.add_char b (Char.chr (0x80 lor ((c lsr 12) land 0x3F))); Buffer.add_char b (Char.chr (0x80 lor ((c lsr 6) land 0x3F))); Buffer.add_char b (Char.chr (0x80 lor (c land 0x3F))))
let s_of (tx : n list) : string =
  let b = Buffer.create 64 in List.iter (fun c -> encode_cp b (int_of_n c)) tx; Buffer.contents b

(* ---------- the output as classified lines ---------- *)
type line =
  | LLabel of string * bool          (* name, exported *)
  | LMarker of int * string          (* line number, path as written *)
  | LBlank
  | LTab of string * string list * string   (* first word, arguments split on ", ", whole line without the tab *)
  | LOther of string

let starts p s = String.length s >= String.length p && String.sub s 0 (String.length p) = p
let ends p s = String.length s >= String.length p && String.sub s (String.length s - String.length p) (String.length p) = p

let split_args (s : string) : string list =
  (* split on ", " *)
  let n = String.length s in
  let rec go i start acc =
    if i >= n then List.rev (String.sub s start (n - start) :: acc)
    else if s.[i] = ',' && i + 1 < n && s.[i+1] = ' ' then go (i + 2) (i + 2) (String.sub s start (i - start) :: acc)
    else go (i + 1) start acc in
  if s = "" then [] else go 0 0 []

let classify (l : string) : line =
  if l = "" then LBlank
  else if l.[0] = '\t' then begin
    let body = String.sub l 1 (String.length l - 1) in
    match String.index_opt body ' ' with
    | None -> LTab (body, [], body)
    | Some i -> LTab (String.sub body 0 i, split_args (String.sub body (i + 1) (String.length body - i - 1)), body)
  end
  else if starts "# " l then begin
    match String.index_from_opt l 2 ' ' with
    | Some i -> (try LMarker (int_of_string (String.sub l 2 (i - 2)), String.sub l (i + 1) (String.length l - i - 1)) with _ -> LOther l)
    | None -> LOther l
  end
  else if ends "::" l then LLabel (String.sub l 0 (String.length l - 2), true)
  else if ends ":" l then LLabel (String.sub l 0 (String.length l - 1), false)
  else LOther l

let lines_of (out : string) : line array =
  let ls = String.split_on_char '\n' out in
  (* the text ends with a newline: drop the final empty piece *)
  let ls = match List.rev ls with "" :: r -> List.rev r | _ -> ls in
  Array.of_list (List.map classify ls)

(* ---------- what the author wrote, from the model's parse ---------- *)
type info = {
  scripts : (string * bool option * stmt list) list;   (* name, Some scope for script statements / None for inline map scripts, body *)
  top_scopes : (string * bool) list;                    (* every top-level name with its scope (texts, movements, marts, mapscripts, scripts) *)
  inline_texts : string list;
  hoisted_movs : string list;
  table_labels : string list;
}

let rec stmts_fold (f : 'a -> stmt -> 'a) (acc : 'a) (ss : stmt list) : 'a =
  List.fold_left (fun acc s ->
    let acc = f acc s in
    match s with
    | SIf (conds, els) ->
        let acc = List.fold_left (fun a (_, b) -> stmts_fold f a b) acc conds in
        (match els with Some b -> stmts_fold f acc b | None -> acc)
    | SWhile (_, _, b) | SDoWhile (_, b, _) -> stmts_fold f acc b
    | SSwitch (_, _, _, cases) -> List.fold_left (fun a (_, b) -> stmts_fold f a b) acc cases
    | _ -> acc) acc ss

let user_labels body = List.rev (stmts_fold (fun acc s -> match s with SLabel (n, g, _) -> (s_of n, g) :: acc | _ -> acc) [] body)
let user_gotos body =
  stmts_fold (fun acc s -> match s with
    | SCmd c when s_of c.cname = "goto" || s_of c.cname = "call" -> List.map s_of c.cargs @ acc
    | _ -> acc) [] body

let info_of (p : program) : info =
  let scripts = ref [] and tops = ref [] and movs = ref [] and tabs = ref [] in
  List.iter (fun tp -> match tp with
    | TScript (n, g, b) -> scripts := (s_of n, Some g, b) :: !scripts; tops := (s_of n, g) :: !tops
    | TMovement (n, g, tk, _) -> tops := (s_of n, g) :: !tops; if tk.ttype <> MOVEMENT then movs := s_of n :: !movs
    | TMart (n, g, _, _, _) -> tops := (s_of n, g) :: !tops
    | TMapScripts (n, g, plain, tables) ->
        tops := (s_of n, g) :: !tops;
        List.iter (fun m -> match m.msScript with Some b -> scripts := (s_of m.msName, None, b) :: !scripts | None -> ()) plain;
        List.iter (fun tb -> tabs := s_of tb.tmName :: !tabs;
          List.iter (fun e -> match e.teScript with Some b -> scripts := (s_of e.teName, None, b) :: !scripts | None -> ()) tb.tmEntries) tables
    | _ -> ()) p.tops;
  let inl = List.filter_map (fun x -> if x.xtok.ttype = STRING then Some (s_of x.xname) else None) p.texts in
  List.iter (fun x -> if x.xtok.ttype <> STRING then tops := (s_of x.xname, x.xglob) :: !tops) p.texts;
  { scripts = List.rev !scripts; top_scopes = List.rev !tops; inline_texts = inl; hoisted_movs = !movs; table_labels = !tabs }

let is_digits s = s <> "" && String.for_all (fun c -> c >= '0' && c <= '9') s

(* generated sub-label of script [name]: name_<digits> *)
let sublabel_of scripts (l : string) : string option =
  List.find_map (fun (n, _, _) ->
    let p = n ^ "_" in
    if starts p l && is_digits (String.sub l (String.length p) (String.length l - String.length p)) then Some n else None) scripts

let targets_of_line = function
  | LTab ("goto", [l], _) -> [l]
  | LTab (("goto_if_set" | "goto_if_unset" | "goto_if" | "case"), [_; l], _) -> [l]
  | LTab (w, [l], _) when starts "goto_if_" w -> [l]
  | _ -> []

(* ---------- C04: closed ---------- *)
let closed (p : program) (out : string) : string list =
  let inf = info_of p in
  let ls = lines_of out in
  let fails = ref [] in
  let fail s = fails := s :: !fails in
  let defs = Hashtbl.create 64 in
  Array.iter (function LLabel (n, _) -> Hashtbl.replace defs n (1 + (try Hashtbl.find defs n with Not_found -> 0)) | _ -> ()) ls;
  Hashtbl.iter (fun n c -> if c > 1 then fail (Printf.sprintf "label %s is defined %d times" n c)) defs;
  let all_user_gotos = List.concat_map (fun (_, _, b) -> user_gotos b) inf.scripts in
  (* generated references *)
  Array.iter (fun l -> List.iter (fun t ->
      if not (Hashtbl.mem defs t) && not (List.mem t all_user_gotos) then fail (Printf.sprintf "generated jump to %s, which is not defined in the output" t)) (targets_of_line l)) ls;
  (* labels the author wrote inside scripts: still there, exactly once *)
  List.iter (fun (sn, _, b) -> List.iter (fun (n, _) ->
      let c = try Hashtbl.find defs n with Not_found -> 0 in
      if c <> 1 then fail (Printf.sprintf "label %s written in script %s is defined %d times in the output" n sn c)) (user_labels b)) inf.scripts;
  (* hoisted text / movement / inline script / table labels referenced by the output are defined once *)
  List.iter (fun n -> let c = try Hashtbl.find defs n with Not_found -> 0 in
      if c <> 1 then fail (Printf.sprintf "generated label %s (hoisted text/movement, inline map script or table) is defined %d times" n c))
    (inf.inline_texts @ inf.hoisted_movs @ inf.table_labels @ List.filter_map (fun (n, g, _) -> if g = None then Some n else None) inf.scripts);
  (* hoisted labels used as command arguments *)
  Array.iter (function
    | LTab (w, args, _) when w <> "goto" && w <> "case" ->
        List.iter (fun a ->
          let is_gen = (let rec has_sub s sub i = i + String.length sub <= String.length s && (String.sub s i (String.length sub) = sub || has_sub s sub (i + 1)) in
                        has_sub a "_Text_" 0 || has_sub a "_Movement_" 0) in
          if is_gen && List.exists (fun (n, _, _) -> starts (n ^ "_") a) inf.scripts && not (Hashtbl.mem defs a) && not (List.mem_assoc a inf.top_scopes) then
            fail (Printf.sprintf "command argument %s names a hoisted label that is not defined" a)) args
    | _ -> ()) ls;
  (* no run-off: the last instruction of a script's code is a terminator or a jump *)
  let n = Array.length ls in
  List.iter (fun (sn, _, b) ->
    let own = sn :: List.map fst (user_labels b) in
    let start = ref (-1) in
    Array.iteri (fun i l -> match l with LLabel (x, _) when x = sn && !start < 0 -> start := i | _ -> ()) ls;
    if !start >= 0 then begin
      (* end of the region: the next label that is neither a sub-label of sn nor one of its user labels *)
      let stop = ref n in
      (try for i = !start + 1 to n - 1 do
         match ls.(i) with
         | LLabel (x, _) when not (List.mem x own) && sublabel_of [(sn, None, [])] x = None -> stop := i; raise Exit
         | LTab (".align", _, _) -> stop := i; raise Exit
         | LBlank when i + 1 < n && ls.(i + 1) = LBlank -> stop := i; raise Exit   (* two blank lines separate top-level statements *)
         | _ -> ()
       done with Exit -> ());
      let last = ref None in
      for i = !start to !stop - 1 do
        match ls.(i) with LTab (_, _, _) as l -> last := Some l | LOther _ as l -> last := Some l | _ -> ()
      done;
      match !last with
      | Some (LTab (("return" | "end" | "goto"), _, _)) -> ()
      | Some (LTab (w, _, whole)) -> fail (Printf.sprintf "script %s can run past its end: its last instruction is '%s'" sn (if whole = "" then w else whole))
      | Some (LOther s) -> fail (Printf.sprintf "script %s can run past its end: its last line is '%s'" sn s)
      | _ -> ()
    end) inf.scripts;
  List.rev !fails

(* ---------- C05: no goto to the next line, no unreferenced sub-label ---------- *)
let optim (p : program) (out : string) : string list =
  let inf = info_of p in
  let ls = lines_of out in
  let fails = ref [] in
  let fail s = fails := s :: !fails in
  let n = Array.length ls in
  let all_user_gotos = List.concat_map (fun (_, _, b) -> user_gotos b) inf.scripts in
  let all_user_labels = List.concat_map (fun (_, _, b) -> List.map fst (user_labels b)) inf.scripts in
  let referenced = Hashtbl.create 64 in
  Array.iter (fun l -> List.iter (fun t -> Hashtbl.replace referenced t ()) (targets_of_line l)) ls;
  for i = 0 to n - 1 do
    match ls.(i) with
    | LTab ("goto", [t], _) when not (List.mem t all_user_gotos) ->
        let j = ref (i + 1) in
        while !j < n && (match ls.(!j) with LBlank | LMarker _ -> true | _ -> false) do incr j done;
        (* several labels may be stacked on the next line(s) *)
        let k = ref !j in
        while !k < n && (match ls.(!k) with LLabel _ | LMarker _ -> true | _ -> false) do
          (match ls.(!k) with LLabel (x, _) when x = t -> fail (Printf.sprintf "generated 'goto %s' targets the label on the very next line" t) | _ -> ());
          incr k
        done
    | LLabel (x, _) when sublabel_of inf.scripts x <> None && not (List.mem x all_user_labels) && not (List.mem_assoc x inf.top_scopes) ->
        if not (Hashtbl.mem referenced x) then fail (Printf.sprintf "generated sub-label %s is emitted but nothing refers to it" x)
    | _ -> ()
  done;
  List.rev !fails

(* what optimisation must not change: hoisted data and user-visible labels *)
let visible (p : program) (out : string) : string list =
  let inf = info_of p in
  let ls = lines_of out in
  let all_user_labels = List.concat_map (fun (_, _, b) -> List.map fst (user_labels b)) inf.scripts in
  let acc = ref [] in
  Array.iter (function
    | LLabel (x, g) when sublabel_of inf.scripts x = None || List.mem x all_user_labels -> acc := (x ^ (if g then "::" else ":")) :: !acc
    | LTab (w, _, whole) when w <> "" && w.[0] = '.' -> acc := whole :: !acc
    | _ -> ()) ls;
  List.sort compare !acc

(* ---------- C15: scopes ---------- *)
let scopes (p : program) (out : string) : string list =
  let inf = info_of p in
  let ls = lines_of out in
  let fails = ref [] in
  let user = List.concat_map (fun (_, _, b) -> user_labels b) inf.scripts in
  Array.iter (function
    | LLabel (x, g) ->
        (match List.assoc_opt x inf.top_scopes with
         | Some want ->
             (* a name the author declared that is ALSO an invented label (possible in lint mode, repair D20: the hoisted label and
                the statement both appear): one line carries the declared scope, the invented ones are local *)
             let invented = List.mem x inf.inline_texts || List.mem x inf.hoisted_movs in
             let others = Array.to_list ls |> List.filter_map (function LLabel (y, g') when y = x -> Some g' | _ -> None) in
             let ok = if invented && List.length others > 1 then List.mem want others && (g = want || g = false) else g = want in
             if not ok then fails := Printf.sprintf "top-level label %s is %s but was declared %s" x (if g then "exported (::)" else "local (:)") (if want then "global" else "local") :: !fails
         | None ->
             match List.assoc_opt x user with
             | Some want -> if g <> want then fails := Printf.sprintf "label %s inside a script is %s but was written %s" x (if g then "exported (::)" else "local (:)") (if want then "(global)" else "local") :: !fails
             | None -> if g then fails := Printf.sprintf "compiler-generated label %s is exported (::)" x :: !fails)
    | _ -> ()) ls;
  List.rev !fails

(* ---------- C16: markers ---------- *)
let strip_markers (out : string) : string =
  String.concat "\n" (List.filter (fun l -> not (starts "# " l && (match classify l with LMarker _ -> true | _ -> false))) (String.split_on_char '\n' out))

let markers (userlabels : string list) (src : string) (path : string) (out : string) : string list =
  let ls = lines_of out in
  let fails = ref [] in
  let srclines = Array.of_list (String.split_on_char '\n' src) in
  let nl = Array.length srclines in
  let esc = String.concat "\\\\" (String.split_on_char '\\' path) in
  let n = Array.length ls in
  let contains s sub = let ls = String.length s and lb = String.length sub in let rec go i = i + lb <= ls && (String.sub s i lb = sub || go (i + 1)) in lb = 0 || go 0 in
  for i = 0 to n - 1 do
    match ls.(i) with
    | LMarker (k, pth) ->
        if path = "" then fails := "a line marker is emitted although no input path was given" :: !fails
        else begin
          if pth <> "\"" ^ esc ^ "\"" then fails := Printf.sprintf "marker names %s instead of the input file \"%s\"" pth esc :: !fails;
          if k < 1 || k > nl then fails := Printf.sprintf "marker line %d outside 1..%d" k nl :: !fails
          else if i + 1 < n then begin
            let sl = srclines.(k - 1) in
            match ls.(i + 1) with
            | LTab (w, _, _) when w <> "" && w.[0] <> '.' && not (List.mem w ["goto"; "goto_if_set"; "goto_if_unset"; "goto_if"; "compare"; "compare_var_to_value"; "checktrainerflag"; "switch"; "case"; "return"; "end"; "map_script"; "map_script_2"]) && not (starts "goto_if_" w) ->
                if not (contains sl w) then fails := Printf.sprintf "marker says line %d for '%s' but that source line is %S" k w sl :: !fails
            | LLabel (x, _) when List.mem x userlabels -> if not (contains sl x) then fails := Printf.sprintf "marker says line %d for label %s but that source line is %S" k x sl :: !fails
            | LOther s -> if not (contains sl (String.trim s)) then fails := Printf.sprintf "marker says line %d for raw line %S but that source line is %S" k s sl :: !fails
            | _ -> ()
          end
        end
    | _ -> ()
  done;
  List.rev !fails

(* ---------- C08: mapscripts tables ---------- *)
let mapscripts (p : program) (out : string) : string list =
  let ls = lines_of out in
  let fails = ref [] in
  let fail s = fails := s :: !fails in
  let n = Array.length ls in
  let find_label x = let r = ref (-1) in Array.iteri (fun i l -> match l with LLabel (y, _) when y = x && !r < 0 -> r := i | _ -> ()) ls; !r in
  let count_label x = Array.fold_left (fun a l -> match l with LLabel (y, _) when y = x -> a + 1 | _ -> a) 0 ls in
  List.iter (function
    | TMapScripts (name, _, plain, tables) ->
        let name = s_of name in
        let i = find_label name in
        if i < 0 then fail (Printf.sprintf "mapscripts %s: header label missing" name) else begin
          let expected = List.map (fun m -> (s_of m.msType.tlit, s_of m.msName)) plain @ List.map (fun tb -> (s_of tb.tmType.tlit, s_of tb.tmName)) tables in
          let got = ref [] and j = ref (i + 1) and term = ref false in
          (try while !j < n do
             (match ls.(!j) with
              | LTab ("map_script", [a; b], _) -> got := (a, b) :: !got
              | LMarker _ -> ()
              | LTab (".byte", ["0"], _) -> term := true; raise Exit
              | _ -> raise Exit);
             incr j done with Exit -> ());
          if List.rev !got <> expected then fail (Printf.sprintf "mapscripts %s: header lists %s, expected %s (plain entries in source order, then tables in source order)" name
                (String.concat " " (List.map (fun (a, b) -> a ^ "," ^ b) (List.rev !got))) (String.concat " " (List.map (fun (a, b) -> a ^ "," ^ b) expected)));
          if not !term then fail (Printf.sprintf "mapscripts %s: header is not terminated by .byte 0" name)
        end;
        List.iter (fun m -> match m.msScript with
          | Some _ -> let c = count_label (s_of m.msName) in if c <> 1 then fail (Printf.sprintf "inline map script %s is emitted %d times" (s_of m.msName) c)
          | None -> ()) plain;
        List.iter (fun tb ->
          let tn = s_of tb.tmName in
          let i = find_label tn in
          if i < 0 then fail (Printf.sprintf "table %s is not emitted" tn) else begin
            (match ls.(i) with LLabel (_, true) -> fail (Printf.sprintf "table label %s is exported" tn) | _ -> ());
            let expected = List.map (fun e -> (s_of e.teCondLit, s_of e.teCmp, s_of e.teName)) tb.tmEntries in
            let got = ref [] and j = ref (i + 1) and term = ref false in
            (try while !j < n do
               (match ls.(!j) with
                | LTab ("map_script_2", [a; b; c], _) -> got := (a, b, c) :: !got
                | LMarker _ -> ()
                | LTab (".2byte", ["0"], _) -> term := true; raise Exit
                | _ -> raise Exit);
               incr j done with Exit -> ());
            if List.rev !got <> expected then fail (Printf.sprintf "table %s: entries differ from the source order/content" tn);
            if not !term then fail (Printf.sprintf "table %s is not terminated by .2byte 0" tn)
          end;
          List.iter (fun e -> match e.teScript with
            | Some _ -> let c = count_label (s_of e.teName) in if c <> 1 then fail (Printf.sprintf "inline table script %s is emitted %d times" (s_of e.teName) c)
            | None -> ()) tb.tmEntries) tables
    | _ -> ()) p.tops;
  List.rev !fails

(* ---------- C14: movement and mart lists ---------- *)
let lists (p : program) (out : string) : string list =
  let ls = lines_of out in
  let fails = ref [] in
  let fail s = fails := s :: !fails in
  let n = Array.length ls in
  let find_label x = let r = ref (-1) in Array.iteri (fun i l -> match l with LLabel (y, _) when y = x && !r < 0 -> r := i | _ -> ()) ls; !r in
  let body_after i = (* tab lines after label i up to the next blank / label *)
    let acc = ref [] and j = ref (i + 1) in
    (try while !j < n do (match ls.(!j) with LTab (_, _, whole) -> acc := whole :: !acc | LMarker _ -> () | _ -> raise Exit); incr j done with Exit -> ());
    List.rev !acc in
  List.iter (function
    | TMovement (name, _, _, steps) ->
        let name = s_of name in
        let i = find_label name in
        if i < 0 then fail (Printf.sprintf "movement %s is not emitted" name) else begin
          let got = body_after i in
          let rec upto = function [] -> [] | x :: r -> if x = "step_end" then [] else x :: upto r in
          let expected = upto (List.map (fun (tk : token) -> s_of tk.tlit) steps) @ ["step_end"] in
          if got <> expected then fail (Printf.sprintf "movement %s emits [%s], expected the steps in source order up to the first step_end and exactly one step_end: [%s]" name (String.concat " " got) (String.concat " " expected))
        end
    | TMart (name, _, _, items, _) ->
        let name = s_of name in
        let i = find_label name in
        if i < 0 then fail (Printf.sprintf "mart %s is not emitted" name) else begin
          let got = body_after i in
          let rec upto = function [] -> [] | x :: r -> if x = "ITEM_NONE" then [] else x :: upto r in
          let expected = List.map (fun x -> ".2byte " ^ x) (upto (List.map s_of items)) @ [".2byte ITEM_NONE"] in
          if got <> expected then fail (Printf.sprintf "mart %s emits [%s], expected [%s]" name (String.concat "; " got) (String.concat "; " expected));
          if i = 0 || (match ls.(i - 1) with LTab (".align", ["2"], _) -> false | LMarker _ -> (i < 2 || (match ls.(i - 2) with LTab (".align", ["2"], _) -> false | _ -> true)) | _ -> true) then
            fail (Printf.sprintf "mart %s is not preceded by .align 2" name)
        end
    | _ -> ()) p.tops;
  List.rev !fails

(* ---------- C09 / C06: texts ---------- *)
let texts (p : program) (out : string) : string list =
  let ls = lines_of out in
  let fails = ref [] in
  let fail s = fails := s :: !fails in
  let n = Array.length ls in
  let positions x = let r = ref [] in Array.iteri (fun i l -> match l with LLabel (y, _) when y = x -> r := i :: !r | _ -> ()) ls; List.rev !r in
  List.iter (fun x ->
    let name = s_of x.xname in
    match positions name with
    | [i] ->
        let dir = "." ^ (if x.xtype = [] then "string" else s_of x.xtype) in
        let acc = ref [] and j = ref (i + 1) in
        (try while !j < n do
           (match ls.(!j) with
            | LTab (w, _, whole) when w = dir ->
                let q = String.sub whole (String.length w + 1) (String.length whole - String.length w - 1) in
                if String.length q >= 2 && q.[0] = '"' && q.[String.length q - 1] = '"' then acc := String.sub q 1 (String.length q - 2) :: !acc
                else (fail (Printf.sprintf "text %s: malformed directive line '%s'" name whole); raise Exit)
            | LMarker _ -> ()
            | LTab (w, _, whole) when w <> "" && w.[0] = '.' -> fail (Printf.sprintf "text %s is emitted with directive %s instead of %s" name w dir); raise Exit
            | _ -> raise Exit);
           incr j done with Exit -> ());
        let got = String.concat "" (List.rev !acc) in
        let want = String.concat "" (String.split_on_char '\n' (s_of x.xvalue)) in
        if got <> want && !fails = [] then fail (Printf.sprintf "text %s: the emitted lines concatenate to %S but its content is %S" name got want);
        let nlines = List.length (String.split_on_char '\n' (s_of x.xvalue)) in
        if List.length !acc <> nlines && !fails = [] then fail (Printf.sprintf "text %s: %d directive lines for %d source lines" name (List.length !acc) nlines)
    | l -> fail (Printf.sprintf "text label %s is defined %d times" name (List.length l))) p.texts;
  (* identical content of the same type shares one label: no two hoisted blocks are equal *)
  let blocks = Hashtbl.create 16 in
  let is_gen x = let rec has s sub i = i + String.length sub <= String.length s && (String.sub s i (String.length sub) = sub || has s sub (i + 1)) in has x "_Text_" 0 || has x "_Movement_" 0 in
  Array.iteri (fun i l -> match l with
    | LLabel (x, false) when is_gen x && not (List.mem_assoc x (info_of p).top_scopes) ->
        let acc = ref [] and j = ref (i + 1) in
        (try while !j < n do (match ls.(!j) with LTab (_, _, whole) -> acc := whole :: !acc | LMarker _ -> () | _ -> raise Exit); incr j done with Exit -> ());
        let key = String.concat "\n" (List.rev !acc) in
        (match Hashtbl.find_opt blocks key with
         | Some y when !acc <> [] -> fail (Printf.sprintf "hoisted labels %s and %s have identical content: identical content must share one label" y x)
         | _ -> Hashtbl.replace blocks key x)
    | _ -> ()) ls;
  (* generated names are <owner>_Text_<n> / <owner>_Movement_<n>, numbered per owner 0, 1, 2 ... in order of first appearance *)
  let owners = Hashtbl.create 16 in
  let split_gen x kind =
    (* the LAST occurrence of kind followed by digits up to the end *)
    let kl = String.length kind and xl = String.length x in
    let rec go i = if i < 0 then None else
      if i + kl <= xl && String.sub x i kl = kind && is_digits (String.sub x (i + kl) (xl - i - kl)) then Some (String.sub x 0 i, int_of_string (String.sub x (i + kl) (xl - i - kl))) else go (i - 1) in
    if xl > 40 + kl then None else go (xl - kl - 1) in
  let tops = (info_of p).top_scopes in
  Array.iter (fun l -> match l with
    | LLabel (x, false) when not (List.mem_assoc x tops) ->
        List.iter (fun kind -> match split_gen x kind with
          | Some (owner, k) ->
              let key = owner ^ kind in
              let seen = try Hashtbl.find owners key with Not_found -> [] in
              Hashtbl.replace owners key (k :: seen)
          | None -> ()) ["_Text_"; "_Movement_"]
    | _ -> ()) ls;
  Hashtbl.iter (fun key ks ->
    let ks = List.rev ks in
    if ks <> List.init (List.length ks) (fun i -> i) then
      fail (Printf.sprintf "generated labels %s<n> are numbered %s in the output: expected 0, 1, 2 ... per owning script in order of first appearance" key (String.concat "," (List.map string_of_int ks)))) owners;
  List.rev !fails

(* ---------- C10: no command line with an empty argument ---------- *)
let cmdline (_ : program) (out : string) : string list =
  let ls = lines_of out in
  let fails = ref [] in
  Array.iter (function
    | LTab (w, args, whole) when w <> "" && w.[0] <> '.' ->
        if List.exists (fun a -> String.trim a = "") args || ends " " whole || ends "," whole then
          fails := Printf.sprintf "command line '%s' has an empty argument (an inline text/moves() was not replaced by its label?)" whole :: !fails
    | _ -> ()) ls;
  List.rev !fails

let script_user_labels (p : program) : string list =
  let inf = info_of p in List.concat_map (fun (_, _, b) -> List.map fst (user_labels b)) inf.scripts
