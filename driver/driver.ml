(* Correspondence driver: runs the extracted Coq model on the inputs of a case file, compares with the
   implementation's recorded results under the property's projection, and runs the oracles that search
   the implementation's results for a concrete failing input.

   usage: driver <casefile> [semall|semmis]      (sem oracle on all OK cases / on mismatching cases only)
   output (stdout), one record per line:
     MISMATCH <tab> index <tab> layer <tab> detail
     FAIL <tab> oracle <tab> index <tab> message          (a concrete input on which the property fails)
     SUMMARY <tab> json *)
open Model

let rec pos_of_int n = if n = 1 then XH else if n land 1 = 0 then XO (pos_of_int (n lsr 1)) else XI (pos_of_int (n lsr 1))
let n_of_int n = if n = 0 then N0 else Npos (pos_of_int n)
let rec int_of_pos = function XH -> 1 | XO p -> 2 * int_of_pos p | XI p -> 2 * int_of_pos p + 1
let int_of_n = function N0 -> 0 | Npos p -> int_of_pos p
let rec nat_of_int n = if n = 0 then O else S (nat_of_int (n - 1))
let int_of_z = function Z0 -> 0 | Zpos p -> int_of_pos p | Zneg p -> - (int_of_pos p)
let zi i = if i = 0 then Z0 else if i > 0 then Zpos (pos_of_int i) else Zneg (pos_of_int (-i))

let unhex s =
  let n = String.length s / 2 in
  Bytes.to_string (Bytes.init n (fun i -> Char.chr (int_of_string ("0x" ^ String.sub s (2*i) 2))))
let hex s = String.concat "" (List.map (fun ch -> Printf.sprintf "%02x" (Char.code ch)) (List.of_seq (String.to_seq s)))

(* utf8 decode (input is valid) *)
let decode s =
  let n = String.length s in
  let g i = if i < n then Char.code s.[i] land 0x3F else 0 in
  let rec go i acc =
    if i >= n then List.rev acc else
    let c = Char.code s.[i] in
    if c < 0x80 then go (i+1) (c :: acc)
    else if c < 0xE0 then go (i+2) ((((c land 0x1F) lsl 6) lor g (i+1)) :: acc)
    else if c < 0xF0 then go (i+3) ((((c land 0x0F) lsl 12) lor (g (i+1) lsl 6) lor g (i+2)) :: acc)
    else go (i+4) ((((c land 0x07) lsl 18) lor (g (i+1) lsl 12) lor (g (i+2) lsl 6) lor g (i+3)) :: acc)
  in go 0 []

let encode_cp b c =
  if c < 0x80 then Buffer.add_char b (Char.chr c)
  else if c < 0x800 then (Buffer.add_char b (Char.chr (0xC0 lor (c lsr 6))); Buffer.add_char b (Char.chr (0x80 lor (c land 0x3F))))
  else if c < 0x10000 then (Buffer.add_char b (Char.chr (0xE0 lor (c lsr 12))); Buffer.add_char b (Char.chr (0x80 lor ((c lsr 6) land 0x3F))); Buffer.add_char b (Char.chr (0x80 lor (c land 0x3F))))
  else (Buffer.add_char b (Char.chr (0xF0 lor (c lsr 18))); Buffer.add_char b (Char.chr (0x80 lor ((c lsr 12) land 0x3F))); Buffer.add_char b (Char.chr (0x80 lor ((c lsr 6) land 0x3F))); Buffer.add_char b (Char.chr (0x80 lor (c land 0x3F))))

let text_of_string (str : string) : n list = List.map n_of_int (decode str)
let string_of_text (tx : n list) : string =
  let b = Buffer.create 64 in List.iter (fun c -> encode_cp b (int_of_n c)) tx; Buffer.contents b
let hex_of_text tx = hex (string_of_text tx)

(* classification of code points >= 128: table supplied by the Go side (CLASS line) *)
let letters : (int, unit) Hashtbl.t = Hashtbl.create 16
let digits : (int, unit) Hashtbl.t = Hashtbl.create 16
let spaces : (int, unit) Hashtbl.t = Hashtbl.create 16
let is_l c = Hashtbl.mem letters (int_of_n c)
let is_d c = Hashtbl.mem digits (int_of_n c)
let is_s c = Hashtbl.mem spaces (int_of_n c)

let name = function
  | ILLEGAL -> "ILLEGAL" | EOF -> "EOF" | IDENT -> "IDENT" | INT -> "INT" | STRING -> "STRING" | RAWSTRING -> "RAWSTRING"
  | STRINGTYPE -> "STRINGTYPE" | ASSIGN -> "=" | EQ -> "==" | NEQ -> "!=" | LT -> "<" | GT -> ">" | LTE -> "<=" | GTE -> ">="
  | AND -> "&&" | OR -> "||" | NOT -> "!" | MUL -> "*" | COMMA -> "," | COLON -> ":" | LPAREN -> "(" | RPAREN -> ")"
  | LBRACE -> "{" | RBRACE -> "}" | LBRACKET -> "[" | RBRACKET -> "]" | SCRIPT -> "SCRIPT" | RAW -> "RAW" | TEXT -> "TEXT"
  | MOVEMENT -> "MOVEMENT" | MART -> "MART" | MAPSCRIPTS -> "MAPSCRIPTS" | FORMAT -> "FORMAT" | VAR -> "VAR" | FLAG -> "FLAG"
  | DEFEATED -> "DEFEATED" | TRUE -> "TRUE" | FALSE -> "FALSE" | IF -> "IF" | ELSE -> "ELSE" | ELSEIF -> "ELSEIF" | DO -> "DO"
  | WHILE -> "WHILE" | BREAK -> "BREAK" | CONTINUE -> "CONTINUE" | SWITCH -> "SWITCH" | CASE -> "CASE" | DEFAULT -> "DEFAULT"
  | GLOBAL -> "GLOBAL" | LOCAL -> "LOCAL" | PORYSWITCH -> "PORYSWITCH" | CONST -> "CONST" | VALUE -> "VALUE" | MOVES -> "MOVES"

let show_tok (tk : token) =
  Printf.sprintf "%s|%s|%d|%d|%d|%d|%d|%d" (name tk.ttype) (hex_of_text tk.tlit) (int_of_z tk.tline) (int_of_z tk.tsb) (int_of_z tk.tsu)
    (int_of_z tk.teline) (int_of_z tk.teb) (int_of_z tk.teu)

let mk_autovars (spec : string) =
  List.filter_map (fun kv ->
    match String.split_on_char '=' kv with
    | [k; v] when String.length v > 0 && v.[0] = '#' ->
        Some (text_of_string k, { avName = []; avPos = Some (zi (int_of_string (String.sub v 1 (String.length v - 1)))) })
    | [k; v] -> Some (text_of_string k, { avName = text_of_string v; avPos = None })
    | _ -> None) (String.split_on_char ',' spec)

let mk_switches (spec : string) =
  List.filter_map (fun kv -> match String.split_on_char '=' kv with
    | [k; v] -> Some (text_of_string k, text_of_string v) | _ -> None) (String.split_on_char ',' spec)

let parse_widths ws =
  List.filter_map (fun kv -> match String.split_on_char '=' kv with
     | [k; v] -> Some (text_of_string (unhex k), zi (int_of_string v)) | _ -> None) (String.split_on_char ';' ws)

let parse_fontspec spec =
  match String.split_on_char '|' spec with
  | [] -> { fcDefault = []; fcFonts = [] }
  | def :: fonts ->
      let fl = List.filter_map (fun fs -> match String.split_on_char ':' fs with
        | [name; maxl; nl; cu; ws] ->
            Some (text_of_string name, { fWidths = parse_widths ws; fCursor = zi (int_of_string cu); fMaxLen = zi (int_of_string maxl); fNumLines = zi (int_of_string nl) })
        | _ -> None) fonts in
      { fcDefault = text_of_string def; fcFonts = fl }

(* lexer tokens of the model, in the dump format of the harness *)
let model_lex src =
  let toks = lex is_l is_d is_s (text_of_string src) in
  let rec trim = function a :: b :: r when a = b && r = [] -> [a] | a :: r -> a :: trim r | [] -> [] in
  let rec fix l = let l' = trim l in if l' = l then l else fix l' in
  String.concat ";" (fix (List.map show_tok toks))

let split_on_string sep s =
  (* sep is one char here *)
  String.split_on_char sep s

let count_lines (src : string) =
  (* number of lines of the input as the lexer counts them: 1 + number of '\n' *)
  let n = ref 1 in String.iter (fun c -> if c = '\n' then incr n) src; !n

type result = ROk of string | RErr of int array | ROther of string

let parse_result kind payload =
  match kind with
  | "OK" -> ROk (unhex payload)
  | "ERR" -> (try RErr (Array.of_list (List.map int_of_string (String.split_on_char '|' payload))) with _ -> ROther ("ERR " ^ payload))
  | k -> ROther k

let () =
  let ic = open_in Sys.argv.(1) in
  let sem_mode = if Array.length Sys.argv > 2 then Sys.argv.(2) else "semmis" in
  let geti k dflt = try int_of_string (Sys.getenv k) with _ -> dflt in
  let oracle_seeds = geti "ORACLE_SEEDS" 8 and oracle_fs = geti "ORACLE_SRC_FUEL" 120 and oracle_ft = geti "ORACLE_TGT_FUEL" 600 in
  let sem_budget = ref (geti "ORACLE_SEM_BUDGET" 1000000) in
  let total = ref 0 and bad = ref 0 and okc = ref 0 and errc = ref 0 and fails = ref 0 in
  let lexc = ref 0 and metac = ref 0 and metabad = ref 0 and fmtc = ref 0 and e2ec = ref 0 in
  let oracle_runs = ref 0 and oracle_bad = ref 0 and semcases = ref 0 in
  let repo_font = ref { fcDefault = []; fcFonts = [] } in
  let proj = ref "full" and oracles = ref [] in
  let has o = List.mem o !oracles in
  let idx = ref 0 in
  let mismatch layer detail = incr bad; Printf.printf "MISMATCH\t%d\t%s\t%s\n" !idx layer detail in
  let fail o msg = incr fails; Printf.printf "FAIL\t%s\t%d\t%s\n" o !idx msg in
  let hist : (string, string) Hashtbl.t = Hashtbl.create 1024 in
  let embed : (string * string * string) option ref = ref None in
  let embed_results : result list ref = ref [] in
  let layout_group : (int * result) list ref = ref [] in
  let distinct : (string, unit) Hashtbl.t = Hashtbl.create 4096 in
  let prev_vis : (string * string * string list) option ref = ref None in
  let val_runs = ref 0 and val_ok = ref 0 and val_budget = ref (geti "VALIDATE_BUDGET" 1000000) in
  let lm_seen : (string, string) Hashtbl.t = Hashtbl.create 1024 in
  let kinds_lits s = String.concat ";" (List.map (fun tk -> match String.split_on_char '|' tk with a :: b :: _ -> a ^ "|" ^ b | _ -> tk) (String.split_on_char ';' s)) in
  (* direct position check of the implementation's tokens against the source text *)
  let lexpos src impl =
    if impl = "PANIC" || String.length impl >= 5 && String.sub impl 0 5 = "PANIC" then fail "lexpos" "lexer panicked" else
    let lines = Array.of_list (String.split_on_char '\n' src) in
    List.iter (fun tk ->
      match String.split_on_char '|' tk with
      | [ty; lith; line; sb; su; el; eb; eu] when ty <> "EOF" ->
          let lit = unhex lith in
          let line = int_of_string line and sb = int_of_string sb and su = int_of_string su and el = int_of_string el and eb = int_of_string eb and eu = int_of_string eu in
          if line < 1 || line > Array.length lines then fail "lexpos" (Printf.sprintf "token %s: line %d outside 1..%d" ty line (Array.length lines))
          else begin
            let l = lines.(line - 1) in
            let lexeme_start = match ty with "STRING" -> "\"" | "RAWSTRING" -> "`" | _ -> lit in
            let n = String.length lexeme_start in
            let at_ok = sb >= 0 && sb + n <= String.length l && String.sub l sb n = lexeme_start in
            (* a STRING following a STRINGTYPE starts at its quote; a STRING token's literal may start later lines *)
            if not at_ok then fail "lexpos" (Printf.sprintf "token %s %S: byte column %d of line %d does not hold its first character" ty lit sb line)
            else begin
              let chars_before = List.length (decode (String.sub l 0 sb)) in
              if chars_before <> su then fail "lexpos" (Printf.sprintf "token %s %S: character column %d, expected %d" ty lit su chars_before);
              if ty <> "STRING" && ty <> "RAWSTRING" && el = line then begin
                if eb <> sb + String.length lit then fail "lexpos" (Printf.sprintf "token %s %S: end byte column %d, expected %d" ty lit eb (sb + String.length lit));
                if eu <> su + List.length (decode lit) then fail "lexpos" (Printf.sprintf "token %s %S: end character column %d, expected %d" ty lit eu (su + List.length (decode lit)))
              end
            end
          end
      | _ -> ()) (String.split_on_char ';' impl) in
  (try
    while true do
      let line = input_line ic in
      incr idx;
      match String.split_on_char '\t' line with
      | ["CLASS"; l; d; s] ->
          let add tbl str = List.iter (fun x -> if x <> "" then Hashtbl.replace tbl (int_of_string x) ()) (String.split_on_char ',' str) in
          add letters l; add digits d; add spaces s
      | ["FONTCFG"; spec] -> repo_font := parse_fontspec spec
      | "PROJ" :: p :: _ -> proj := p
      | "ORACLE" :: o :: _ -> oracles := List.filter (fun x -> x <> "") (String.split_on_char ',' o); layout_group := []
      | ["ORACLE"] -> oracles := []
      | ["EMBED"; x; b; a] -> embed := Some (unhex x, unhex b, unhex a); embed_results := []
      | ["LEX"; hexsrc; expected] ->
          incr total; incr lexc;
          Hashtbl.replace distinct line ();
          let src = unhex hexsrc in
          let got = model_lex src in
          if got <> expected then mismatch "LEX" (Printf.sprintf "src=%S impl=%s model=%s" src expected got);
          if has "lexpos" then lexpos src expected
      | ["LEXPAIR"; hexa; hexb; ra; rb] ->
          incr total; incr lexc;
          Hashtbl.replace distinct line ();
          let a = unhex hexa and b = unhex hexb in
          let ga = model_lex a and gb = model_lex b in
          if ga <> ra then mismatch "LEX" (Printf.sprintf "src=%S impl=%s model=%s" a ra ga);
          if gb <> rb then mismatch "LEX" (Printf.sprintf "src=%S impl=%s model=%s" b rb gb);
          if has "lexpos" then (lexpos a ra; lexpos b rb);
          if has "lexpair" && kinds_lits ra <> kinds_lits rb then
            fail "lexpair" (Printf.sprintf "two layouts of the same lexemes give different token kinds/literals: %S vs %S" a b)
      | ["META"; sw; hexa; hexb; resa; resb] ->
          incr total; incr metac;
          Hashtbl.replace distinct line ();
          if resa <> resb then begin
            incr metabad;
            fail "meta" (Printf.sprintf "program and its expanded twin compile differently (sw=%s): %S vs %S" sw (unhex hexa) (unhex hexb))
          end
      | ["FMT"; fontspec; maxw; cursor; fontid; numlines; hextext; expected] ->
          incr total; incr fmtc;
          Hashtbl.replace distinct line ();
          let fc = { fcDefault = text_of_string "f"; fcFonts = [ (text_of_string "f", { fWidths = parse_widths fontspec; fCursor = Z0; fMaxLen = Z0; fNumLines = Z0 }) ] } in
          let r = format_text fc (text_of_string (unhex hextext)) (zi (int_of_string maxw)) (zi (int_of_string cursor)) (text_of_string fontid) (zi (int_of_string numlines)) in
          let got = match r with Some x -> incr okc; "OK:" ^ hex_of_text x | None -> incr errc; "ERR" in
          if got <> expected then mismatch "FMT" (Printf.sprintf "text=%S maxw=%s cursor=%s font=%s nl=%s impl=%S model=%S" (unhex hextext) maxw cursor fontid numlines
               (if String.length expected > 3 then unhex (String.sub expected 3 (String.length expected - 3)) else expected)
               (match r with Some x -> string_of_text x | None -> "ERR"))
      | "GOFAIL" :: o :: msg :: _ -> decr idx; fail o msg; incr idx   (* belongs to the case on the previous line *)
      | ["CASE"; opt; lint; sw; lmraw; cfg; fontspec; clifont; climax; expect; hexsrc; kind; payload] ->
          incr total; incr e2ec;
          Hashtbl.replace distinct (String.concat "\t" [opt; lint; sw; lmraw; cfg; fontspec; clifont; climax; hexsrc]) ();
          let src = unhex hexsrc in
          let lm_on = String.length lmraw >= 2 && lmraw.[0] = '1' in
          let lmpath = if String.length lmraw >= 2 then unhex (String.sub lmraw 2 (String.length lmraw - 2)) else "" in
          let lmpath = if lm_on then lmpath else "" in
          let fcx = if lint = "1" then { fcDefault = []; fcFonts = [] } else if fontspec = "" then !repo_font else parse_fontspec fontspec in
          let autovars = mk_autovars cfg in
          let switches = mk_switches sw in
          let r = compile is_l is_d is_s autovars switches (lint = "0") fcx (text_of_string clifont) (zi (int_of_string climax)) (opt = "1")
                    (if lmpath = "" then None else Some (text_of_string lmpath)) (text_of_string src) in
          let got = match r with
            | OutText x -> incr okc; ROk (string_of_text x)
            | OutErr e -> incr errc; RErr [| int_of_z e.els; int_of_z e.ele; int_of_z e.ecs; int_of_z e.eus; int_of_z e.ece; int_of_z e.eue |]
            | OutPanic -> ROther "MODEL-PANIC" | OutFuel -> ROther "MODEL-FUEL" | OutEmitErr -> ROther "EMITERR" in
          let impl = parse_result kind payload in
          let show = function ROk x -> "OK " ^ String.escaped (if String.length x > 600 then String.sub x 0 600 ^ "..." else x)
                              | RErr a -> "ERR " ^ String.concat "|" (Array.to_list (Array.map string_of_int a)) | ROther k -> k in
          let same = match !proj, impl, got with
            | _, ROk a, ROk b -> if !proj = "kindrange" then true else a = b
            | "full", RErr a, RErr b -> a = b
            | "text", RErr _, RErr _ -> true
            | "errline", RErr a, RErr b -> a.(0) = b.(0)
            | "kindrange", RErr a, RErr b -> a.(0) = b.(0) && a.(1) = b.(1)
            | _, ROther a, ROther b -> a = b
            | _ -> false in
          let mism = not same in
          if mism then mismatch "E2E" (Printf.sprintf "opt=%s lint=%s sw=%s src=%S impl=%s model=%s" opt lint sw src (show impl) (show got));
          (* ---- oracles on the implementation's result ---- *)
          if has "crash" then begin
            (match impl with
             | ROther k -> fail "crash" (Printf.sprintf "implementation answered %s on %S (lint=%s)" k src lint)
             | RErr a -> let nl = count_lines src in
                 if a.(0) < 1 || a.(0) > a.(1) || a.(1) > nl then fail "crash" (Printf.sprintf "error line range %d-%d outside 1..%d or inverted on %S" a.(0) a.(1) nl src)
             | ROk _ -> ())
          end;
          if expect <> "" then begin
            match String.split_on_char '=' expect with
            | ["errline"; v] ->
                let n = int_of_string (List.hd (String.split_on_char ':' v)) in
                (match impl with
                 | RErr a when a.(0) = n -> ()
                 | RErr a -> fail "reject" (Printf.sprintf "violation (%s) on line %d reported on line %d: %S" v n a.(0) src)
                 | _ -> fail "reject" (Printf.sprintf "violation (%s) on line %d not rejected (%s): %S" v n kind src))
            | ["reject"] -> (match impl with RErr _ -> () | _ -> fail "reject" (Printf.sprintf "ill-formed program not rejected (%s): %S" kind src))
            | ["accept"] -> (match impl with ROk _ -> () | _ -> fail "accept" (Printf.sprintf "well-formed program not accepted (%s): %S" kind src))
            | _ -> ()
          end;
          if has "hist" then begin
            let key = String.concat "\t" [opt; lint; sw; lmraw; cfg; fontspec; clifont; climax; hexsrc] in
            (match Hashtbl.find_opt hist key with
             | Some prev -> if prev <> kind ^ "\t" ^ payload then fail "hist" (Printf.sprintf "the same input compiled twice in one process gave different results: %S" src)
             | None -> Hashtbl.replace hist key (kind ^ "\t" ^ payload))
          end;
          if has "embed" then begin
            (* after an EMBED directive: X alone, the surroundings alone, X among the surroundings *)
            match !embed with
            | Some (x, b, a) ->
                embed_results := impl :: !embed_results;
                if List.length !embed_results = 3 then begin
                  (match List.rev !embed_results with
                   | [ROk alone; ROk _; ROk whole] ->
                       let contains s sub =
                         let n = String.length s and m = String.length sub in
                         let rec go i = i + m <= n && (String.sub s i m = sub || go (i + 1)) in m = 0 || go 0 in
                       if not (contains whole alone) then fail "embed" (Printf.sprintf "code of a top-level statement changes with its surroundings: %S alone vs. between %S and %S" x b a)
                   | [ROk _; ROk _; (RErr _ | ROther _)] ->
                       fail "embed" (Printf.sprintf "statement %S compiles alone, its surroundings %S / %S compile alone, together they are rejected" x b a)
                   | _ -> ());
                  embed := None; embed_results := []
                end
            | None -> ()
          end;
          if has "layout" then begin
            layout_group := (!idx, impl) :: !layout_group;
            if List.length !layout_group = 3 then begin
              (match !layout_group with
               | [(_, c); (_, b); (_, a)] -> if not (a = b && b = c) && (match a with ROk _ -> true | _ -> false) then fail "layout" (Printf.sprintf "changing only layout/comments changes the compiled output: %S" src)
               | _ -> ());
              layout_group := []
            end
          end;
          (* ---- direct scans of the implementation's output against what the author wrote ---- *)
          (match impl with
           | ROk out when lint = "0" || has "scopes" ->
               (* in lint mode only the scope scan applies (the other scans are about a real compilation) *)
               let has0 = has in
               let has name = has0 name && (lint = "0" || name = "scopes") in
               let need = List.exists has ["closed"; "optim"; "scopes"; "mapscripts"; "lists"; "textterm"; "hoist"; "cmdline"] in
               if need then begin
                 match parse_model is_l is_d is_s autovars switches fcx (lint = "0") (text_of_string clifont) (zi (int_of_string climax)) (text_of_string src) with
                 | Some p ->
                     let run name f = if has name then List.iteri (fun k m -> if k < 1 then fail name (Printf.sprintf "%s [optimize=%s] src=%S output=%S" m opt src out)) (f p out) in
                     run "closed" Oracles.closed; run "optim" Oracles.optim; run "scopes" Oracles.scopes; run "mapscripts" Oracles.mapscripts;
                     run "lists" Oracles.lists; run "textterm" Oracles.texts; run "hoist" Oracles.texts; run "cmdline" Oracles.cmdline;
                     if has "hoist" then run "closed" Oracles.closed;
                     if has "optim" then begin
                       (* optimisation must not change hoisted data and user-visible labels: compare with the other setting *)
                       let v = Oracles.visible p out in
                       (match !prev_vis with
                        | Some (psrc, popt, pv) when psrc = hexsrc ^ sw ^ cfg && popt <> opt ->
                            if pv <> v then fail "optim" (Printf.sprintf "optimized and unoptimized outputs define different data / user-visible labels: src=%S" src)
                        | _ -> ());
                       prev_vis := Some (hexsrc ^ sw ^ cfg, opt, v)
                     end
                 | None -> ()
               end
           | _ -> ());
          if has "markers" then begin
            (match impl with
             | ROk out ->
                 let ul = if lint = "1" then [] else
                   (match parse_model is_l is_d is_s autovars switches fcx true (text_of_string clifont) (zi (int_of_string climax)) (text_of_string src) with
                    | Some p -> Oracles.script_user_labels p | None -> []) in
                 List.iteri (fun k m -> if k < 1 then fail "markers" (Printf.sprintf "%s src=%S output=%S" m src out)) (Oracles.markers ul src lmpath out);
                 let key = String.concat "\t" [opt; lint; sw; cfg; fontspec; clifont; climax; hexsrc] in
                 let stripped = Oracles.strip_markers out in
                 (match Hashtbl.find_opt lm_seen key with
                  | Some prev -> if prev <> stripped then fail "markers" (Printf.sprintf "removing the marker lines from the -lm output does not give the -lm=false output: src=%S" src)
                  | None -> Hashtbl.replace lm_seen key stripped)
             | _ -> ())
          end;
          (* the validators of theorem emit_script_correct_checked, on the model's own graph / order / code of every script *)
          if has "validate" && lint = "0" && !val_budget > 0 then begin
            (match impl with
             | ROk _ ->
                 decr val_budget;
                 (match validator is_l is_d is_s autovars switches fcx (opt = "1") (text_of_string src) with
                  | Some rs -> List.iter (fun (nm, ok) -> incr val_runs; if ok then incr val_ok else
                                 Printf.printf "VALIDATOR-REJECT\t%d\t%s\toptimize=%s src=%S\n" !idx (string_of_text nm) opt src) rs
                  | None -> ())
             | _ -> ())
          end;
          if has "sem" && lint = "0" && lmpath = "" && (mism || (sem_mode = "semall" && !sem_budget > 0)) then begin
            match impl with
            | ROk out ->
                if not mism then decr sem_budget; incr semcases;
                (match oracle is_l is_d is_s autovars switches fcx (text_of_string src) (text_of_string out) (nat_of_int oracle_seeds) (nat_of_int oracle_fs) (nat_of_int oracle_ft) with
                 | Some rs ->
                     List.iter (fun (name, r) ->
                       incr oracle_runs;
                       match r with
                       | Some seed -> incr oracle_bad;
                           fail "sem" (Printf.sprintf "script %s behaves differently from its source (optimize=%s, oracle seed %d): src=%S output=%S" (string_of_text name) opt (int_of_n seed) src out)
                       | None -> ()) rs
                 | None -> ())
            | _ -> ()
          end
      | _ -> ()
    done
  with End_of_file -> ());
  Printf.printf "SUMMARY\t{\"cases\": %d, \"distinct\": %d, \"mismatches\": %d, \"fails\": %d, \"model_ok\": %d, \"model_err\": %d, \"e2e_cases\": %d, \"lex_cases\": %d, \"fmt_cases\": %d, \"meta_pairs\": %d, \"meta_differences\": %d, \"sem_cases\": %d, \"oracle_scripts\": %d, \"oracle_disagreements\": %d, \"validator_scripts\": %d, \"validator_accepts\": %d}\n"
    !total (Hashtbl.length distinct) !bad !fails !okc !errc !e2ec !lexc !fmtc !metac !metabad !semcases !oracle_runs !oracle_bad !val_runs !val_ok
